"""C08 - read/write sets of lifted semantics never omit a real dependency.

Instances: the integer core of C04 plus MMX/SSE register and memory forms (assembled by GNU as), executed natively by .build/cpu32.
  write probing: every location of the lifter's vocabulary (8 GPRs, CF PF AF ZF SF OF DF, mm0-7, xmm0-7, the data-window bytes) whose
      value changed in some run must be covered by the union of get_w() over the lifted list (a memory byte by an ExprMem whose
      address, evaluated on the pre-state by vlib/irsem.py, spans it);
  read probing: for pairs of states differing in exactly one location, if any architecturally defined output differs, that
      location must be covered by the union of get_r(mem_read=True).
Over-approximation is never reported.
"""
import hashlib
import struct
from vlib import runner, refs, cpu, coregen, irsem
from checks.c04_cpu import make_state, lift, entry_of, undefined_flags, FLAGS, BIT, GPR, rnd

MMX = [
    ("movd %eax, %mm1", "rr"), ("movd %mm1, %ecx", "rr"), ("movd 0x10(%esi), %mm2", "mr"), ("movd %mm2, 0x10(%esi)", "rm"),
    ("movq %mm1, %mm2", "rr"), ("movq 0x10(%esi), %mm3", "mr"), ("movq %mm3, 0x10(%esi)", "rm"),
    ("pshufw $0x1b, %mm1, %mm2", "rr"), ("psllw $3, %mm1", "ri"), ("psrlq %mm1, %mm2", "rr"), ("psrad 0x10(%esi), %mm2", "mr"),
    ("pextrw $2, %mm1, %eax", "rr"), ("pinsrw $1, %ecx, %mm2", "rr"), ("pmovmskb %mm1, %edx", "rr"), ("movntq %mm1, 0x10(%esi)", "rm"),
]
for _op in ("paddb", "paddw", "paddd", "paddq", "psubb", "psubusw", "pxor", "pand", "por", "pandn", "pcmpeqb", "pcmpgtw", "punpcklbw", "punpckhdq", "pmullw", "pmaddwd",
            "packsswb", "packuswb", "pavgb", "pminub", "pmaxsw", "psadbw"):
    MMX += [("%s %%mm1, %%mm2" % _op, "rr"), ("%s 0x10(%%esi), %%mm3" % _op, "mr")]
CVT_F64 = ("cvtsd2si", "cvttsd2si", "cvtsd2ss", "cvtpd2pi", "cvttpd2pi", "cvtpd2ps", "cvtpd2dq", "cvttpd2dq")
CVT_F32 = ("cvtss2si", "cvttss2si", "cvtss2sd", "cvtps2pi", "cvttps2pi", "cvtps2pd", "cvtps2dq", "cvttps2dq")
SSE = [
    # conversions with a memory source of every width (m32 / m64 / m128): the whole source must be in the read set
    ("cvtsd2si 0x10(%esi), %eax", "m64"), ("cvttsd2si 0x10(%esi), %ecx", "m64"), ("cvtsd2ss 0x10(%esi), %xmm1", "m64"), ("cvtss2sd 0x10(%esi), %xmm1", "m32"),
    ("cvtss2si 0x10(%esi), %eax", "m32"), ("cvtpd2pi 0x10(%esi), %mm1", "m128"), ("cvttpd2pi 0x10(%esi), %mm2", "m128"), ("cvtpd2ps 0x10(%esi), %xmm2", "m128"),
    ("cvtps2pi 0x10(%esi), %mm1", "m64"), ("cvttps2pi 0x10(%esi), %mm2", "m64"), ("cvtps2pd 0x10(%esi), %xmm2", "m64"), ("cvtpi2ps 0x10(%esi), %xmm1", "m64"),
    ("cvtpi2pd 0x10(%esi), %xmm1", "m64"), ("cvtdq2pd 0x10(%esi), %xmm2", "m64"), ("cvtdq2ps 0x10(%esi), %xmm2", "m128"), ("cvtps2dq 0x10(%esi), %xmm1", "m128"),
    ("cvtpd2dq 0x10(%esi), %xmm1", "m128"), ("cvttpd2dq 0x10(%esi), %xmm3", "m128"), ("cvtsi2sd 0x10(%esi), %xmm1", "m32"),
    ("movd %eax, %xmm1", "rr"), ("movd %xmm1, %ecx", "rr"), ("movd 0x10(%esi), %xmm2", "mr"), ("movd %xmm2, 0x10(%esi)", "rm"),
    ("movq %xmm1, %xmm2", "rr"), ("movq 0x10(%esi), %xmm3", "mr"), ("movq %xmm3, 0x10(%esi)", "rm"),
    ("movss %xmm1, %xmm2", "rr"), ("movss 0x10(%esi), %xmm2", "mr"), ("movss %xmm2, 0x10(%esi)", "rm"),
    ("movsd %xmm1, %xmm2", "rr"), ("movsd 0x10(%esi), %xmm2", "mr"), ("movsd %xmm2, 0x10(%esi)", "rm"),
    ("movhps 0x10(%esi), %xmm1", "mr"), ("movhps %xmm1, 0x10(%esi)", "rm"), ("movlps 0x10(%esi), %xmm1", "mr"), ("movlpd %xmm1, 0x10(%esi)", "rm"),
    ("movhlps %xmm1, %xmm2", "rr"), ("movlhps %xmm1, %xmm2", "rr"), ("movmskps %xmm1, %eax", "rr"), ("pmovmskb %xmm1, %edx", "rr"),
    ("pshufd $0x1b, %xmm1, %xmm2", "rr"), ("pshufd $0x4e, 0x10(%esi), %xmm2", "mr"), ("shufps $0x1b, %xmm1, %xmm2", "rr"), ("pshuflw $0x1b, %xmm1, %xmm2", "rr"),
    ("pextrw $5, %xmm1, %eax", "rr"), ("pinsrw $6, %ecx, %xmm2", "rr"), ("psllq $7, %xmm1", "ri"), ("psrldq $3, %xmm1", "ri"), ("pslld %xmm1, %xmm2", "rr"),
    ("cvtsi2sd %eax, %xmm1", "rr"), ("cvtsi2ss 0x10(%esi), %xmm1", "mr"), ("cvttsd2si %xmm1, %eax", "rr"), ("cvttss2si 0x10(%esi), %ecx", "mr"),
    ("cvtss2sd %xmm1, %xmm2", "rr"), ("cvtsd2ss %xmm1, %xmm2", "rr"), ("cvtdq2ps %xmm1, %xmm2", "rr"), ("cvtps2pd %xmm1, %xmm2", "rr"),
    ("comiss %xmm1, %xmm2", "rr"), ("ucomisd %xmm1, %xmm2", "rr"), ("comisd 0x10(%esi), %xmm2", "mr"), ("ucomiss 0x10(%esi), %xmm2", "mr"),
    ("movntps %xmm1, 0x10(%esi)", "rm"), ("movntdq %xmm1, 0x10(%esi)", "rm"), ("ldmxcsr 0x10(%esi)", "m"), ("stmxcsr 0x10(%esi)", "m"),
]
for _op in ("movaps", "movups", "movapd", "movupd", "movdqa", "movdqu"):
    SSE += [("%s %%xmm1, %%xmm2" % _op, "rr"), ("%s 0x10(%%esi), %%xmm3" % _op, "mr"), ("%s %%xmm3, 0x10(%%esi)" % _op, "rm")]
for _op in ("addps", "subps", "mulps", "divps", "andps", "orps", "xorps", "andnps", "minps", "maxps", "sqrtps", "addpd", "mulpd", "xorpd", "unpcklps", "unpckhpd", "cmpeqps",
            "paddb", "paddd", "paddq", "psubw", "pxor", "pand", "por", "pandn", "pcmpeqd", "punpcklqdq", "punpckhbw", "pmullw", "packssdw", "pavgw", "pminub", "psadbw", "pmuludq"):
    SSE += [("%s %%xmm1, %%xmm2" % _op, "rr"), ("%s 0x10(%%esi), %%xmm3" % _op, "mr")]
for _op in ("addss", "subss", "mulss", "divss", "sqrtss", "minss", "maxss", "addsd", "subsd", "mulsd", "divsd", "sqrtsd", "cmpltsd"):
    SSE += [("%s %%xmm1, %%xmm2" % _op, "rr"), ("%s 0x10(%%esi), %%xmm3" % _op, "mr")]
# register numbers 0 and 7 of each bank (the lists above use 1..3), and the whole shift-by-immediate group 0F 71/72/73 /digit ib,
# whose only operand is named by the ModRM rm field alone
for _n in (0, 7):
    for _op in ("psrlw", "psraw", "psllw", "psrld", "psrad", "pslld", "psrlq", "psllq"):
        MMX.append(("%s $3, %%mm%d" % (_op, _n), "ri"))
        SSE.append(("%s $3, %%xmm%d" % (_op, _n), "ri"))
    SSE += [("psrldq $4, %%xmm%d" % _n, "ri"), ("pslldq $5, %%xmm%d" % _n, "ri")]
    MMX += [("paddb %%mm%d, %%mm%d" % (_n, 7 - _n), "rr"), ("movq %%mm%d, %%mm%d" % (_n, 7 - _n), "rr"), ("movd %%mm%d, %%eax" % _n, "rr"), ("pxor 0x10(%%esi), %%mm%d" % _n, "mr")]
    SSE += [("pxor %%xmm%d, %%xmm%d" % (_n, 7 - _n), "rr"), ("movdqa %%xmm%d, %%xmm%d" % (_n, 7 - _n), "rr"), ("movd %%xmm%d, %%ecx" % _n, "rr"), ("addps 0x10(%%esi), %%xmm%d" % _n, "mr"),
            ("movss %%xmm%d, %%xmm%d" % (_n, 7 - _n), "rr")]


X87 = []
for _i in (1, 2, 5):
    X87 += [("fld %%st(%d)" % _i, "st"), ("fst %%st(%d)" % _i, "st"), ("fstp %%st(%d)" % _i, "st"), ("fxch %%st(%d)" % _i, "st"), ("fcom %%st(%d)" % _i, "st"), ("fcomp %%st(%d)" % _i, "st"),
            ("fucom %%st(%d)" % _i, "st"), ("fucomp %%st(%d)" % _i, "st"), ("fcomi %%st(%d), %%st" % _i, "st"), ("fcomip %%st(%d), %%st" % _i, "st"),
            ("fucomi %%st(%d), %%st" % _i, "st"), ("fucomip %%st(%d), %%st" % _i, "st")]
    for _op in ("fadd", "fsub", "fsubr", "fmul", "fdiv", "fdivr"):
        X87 += [("%s %%st(%d), %%st" % (_op, _i), "st"), ("%s %%st, %%st(%d)" % (_op, _i), "st"), ("%sp %%st, %%st(%d)" % (_op, _i), "st")]
    for _cc in ("b", "e", "be", "u", "nb", "ne", "nbe", "nu"):
        X87.append(("fcmov%s %%st(%d), %%st" % (_cc, _i), "st"))
X87 += [("fld %st(0)", "st"), ("fst %st(0)", "st"), ("fstp %st(0)", "st"), ("fcompp", "none"), ("fucompp", "none"), ("ftst", "none"), ("fxam", "none"),
        ("fchs", "none"), ("fabs", "none"), ("fsqrt", "none"), ("frndint", "none"), ("fsin", "none"), ("fcos", "none"), ("fsincos", "none"), ("fptan", "none"), ("fpatan", "none"),
        ("f2xm1", "none"), ("fyl2x", "none"), ("fyl2xp1", "none"), ("fscale", "none"), ("fprem", "none"), ("fprem1", "none"), ("fxtract", "none"),
        ("fld1", "none"), ("fldz", "none"), ("fldpi", "none"), ("fldl2e", "none"), ("fldl2t", "none"), ("fldlg2", "none"), ("fldln2", "none"),
        ("fincstp", "none"), ("fdecstp", "none"), ("fnop", "none"), ("fnstsw %ax", "none"), ("fnstsw 0x10(%esi)", "m16"), ("fnstcw 0x10(%esi)", "m16"), ("fldcw 0x10(%esi)", "m16"),
        ("flds 0x10(%esi)", "m32"), ("fldl 0x10(%esi)", "m64"), ("fldt 0x10(%esi)", "m80"), ("fsts 0x10(%esi)", "m32"), ("fstl 0x10(%esi)", "m64"),
        ("fstps 0x10(%esi)", "m32"), ("fstpl 0x10(%esi)", "m64"), ("fstpt 0x10(%esi)", "m80"),
        ("filds 0x10(%esi)", "m16"), ("fildl 0x10(%esi)", "m32"), ("fildll 0x10(%esi)", "m64"), ("fists 0x10(%esi)", "m16"), ("fistl 0x10(%esi)", "m32"),
        ("fistps 0x10(%esi)", "m16"), ("fistpl 0x10(%esi)", "m32"), ("fistpll 0x10(%esi)", "m64"), ("fisttps 0x10(%esi)", "m16"), ("fisttpl 0x10(%esi)", "m32"), ("fisttpll 0x10(%esi)", "m64"),
        ("fcoms 0x10(%esi)", "m32"), ("fcoml 0x10(%esi)", "m64"), ("fcomps 0x10(%esi)", "m32"), ("fcompl 0x10(%esi)", "m64"), ("ficoml 0x10(%esi)", "m32"), ("ficomps 0x10(%esi)", "m16")]
for _op in ("fadd", "fsub", "fsubr", "fmul", "fdiv", "fdivr"):
    X87 += [("%ss 0x10(%%esi)" % _op, "m32"), ("%sl 0x10(%%esi)" % _op, "m64"), ("fi%sl 0x10(%%esi)" % _op[1:], "m32"), ("fi%ss 0x10(%%esi)" % _op[1:], "m16")]
X87_VALID = 6        # ST(0)..ST(5) hold numbers, ST(6) and ST(7) are empty: one push is possible, operands up to st(5) are readable


def f80(key):
    """a finite normal extended-precision number: explicit integer bit set, exponent near the bias"""
    h = hashlib.blake2b(repr(key).encode(), digest_size=12).digest()
    mant = int.from_bytes(h[:8], "little") | (1 << 63)
    exp = 0x3FFF + (h[8] % 9) - 4
    return mant.to_bytes(8, "little") + struct.pack("<H", exp | ((h[9] & 1) << 15))


def x87_image(key, top):
    """FXSAVE image for x87 probing: all exceptions masked, TOP = top, ST(0)..ST(5) valid finite numbers, ST(6..7) empty, random C0-C3"""
    img = bytearray(fx_image(key))
    h = rnd(key, "fsw")
    fsw = ((top & 7) << 11) | ((h & 7) << 8) | (((h >> 3) & 1) << 14)
    tags = 0
    for i in range(X87_VALID):
        tags |= 1 << ((top + i) % 8)          # the abridged tag byte is indexed by physical register
    struct.pack_into("<HHBBH", img, 0, 0x037F, fsw, tags, 0, 0)
    for i in range(8):
        img[32 + 16 * i:32 + 16 * i + 10] = f80((key, "st", i))
    return bytes(img)


def x87_valid(fx):
    """set of i such that ST(i) is non-empty in an FXSAVE image"""
    top = (struct.unpack_from("<H", fx, 2)[0] >> 11) & 7
    tags = fx[4]
    return set(i for i in range(8) if (tags >> ((top + i) % 8)) & 1)


def fx_image(key):
    """a valid FXSAVE image: FCW=0x37F, MXCSR=0x1F80 (all exceptions masked), pseudo-random mm/xmm contents"""
    img = bytearray(512)
    struct.pack_into("<HHBBH", img, 0, 0x037F, 0, 0, 0, 0)
    struct.pack_into("<II", img, 24, 0x1F80, 0xFFFF)
    for i in range(8):
        h = hashlib.blake2b(repr((key, "mm", i)).encode(), digest_size=8).digest()
        img[32 + 16 * i:32 + 16 * i + 8] = h
        img[32 + 16 * i + 8:32 + 16 * i + 10] = b"\xff\xff"      # what the CPU stores for an MMX-written register
        x = hashlib.blake2b(repr((key, "xmm", i)).encode(), digest_size=16).digest()
        # keep the float lanes finite and ordinary: exponent bytes forced to a mid range
        x = bytearray(x)
        for lane in range(4):
            x[4 * lane + 3] = 0x3F + (x[4 * lane + 3] & 0x01)
        img[160 + 16 * i:176 + 16 * i] = x
    return bytes(img)


XBIT = dict(BIT, nt=14)


def locations(inst, fxmode):
    locs = [("reg", n) for n in GPR] + [("flag", n) for n in FLAGS + ["df"]]
    if inst["family"] in ("popf", "pushf"):
        locs.append(("flag", "nt"))
    if fxmode == "x87":
        locs += [("st", i) for i in range(8)] + [("fc", i) for i in range(4)] + [("ftop", 0), ("fcw", 0)]
    elif fxmode:
        locs += [("mm", i) for i in range(8)] + [("xmm", i) for i in range(8)]
    return locs


FC_BIT = [8, 9, 10, 14]


def get_loc(state_or_out, loc, is_out=False):
    k, n = loc
    if k == "reg":
        return state_or_out["regs"][GPR.index(n)]
    if k == "flag":
        return (state_or_out["eflags"] >> XBIT[n]) & 1
    fx = state_or_out["fx"]
    if k == "mm":
        return bytes(fx[32 + 16 * n:40 + 16 * n])
    if k == "xmm":
        return bytes(fx[160 + 16 * n:176 + 16 * n])
    if k == "mem":
        return state_or_out["data"][n]
    if k == "st":
        # the content of an empty register is not architecturally visible: all empty registers compare equal
        return bytes(fx[32 + 16 * n:42 + 16 * n]) if n in x87_valid(fx) else b"empty"
    if k == "fc":
        return (struct.unpack_from("<H", fx, 2)[0] >> FC_BIT[n]) & 1
    if k == "ftop":
        return (struct.unpack_from("<H", fx, 2)[0] >> 11) & 7
    if k == "fcw":
        return struct.unpack_from("<H", fx, 0)[0] & 0x0F3F      # rounding and precision control, exception masks


def perturb(st, loc, j):
    """a copy of st differing in exactly one location; None when no safe perturbation exists"""
    s = {"regs": list(st["regs"]), "eflags": st["eflags"], "data": st["data"], "fx": st.get("fx"), "extra_stubs": st.get("extra_stubs", [])}
    k, n = loc
    if k == "reg":
        i = GPR.index(n)
        if n in ("esi", "esp"):
            s["regs"][i] += [4, 8, -4][j % 3]
        elif n == "edi" and s["regs"][i] < 0x1000:
            s["regs"][i] = (s["regs"][i] + 1 + j) % 8
        elif n == "edi":
            s["regs"][i] += [4, 8, -4][j % 3]
        else:
            s["regs"][i] ^= [0xFFFFFFFF, 0x1, 0x80000000, 0x0000FF00, 0x10][j % 5]
    elif k == "flag":
        if n not in BIT:
            return None                      # the executor loads the status flags and DF only
        s["eflags"] ^= 1 << BIT[n]
    elif k in ("mm", "xmm"):
        fx = bytearray(s["fx"])
        off, ln = (32 + 16 * n, 8) if k == "mm" else (160 + 16 * n, 16)
        for b in range(ln):
            if (j + b) % 3 != 1 or j == 0:
                fx[off + b] ^= [0xFF, 0x01, 0x80, 0x55][(j + b) % 4] if (k == "mm" or b % 4 != 3) else 0x00
        s["fx"] = bytes(fx)
    elif k == "st":
        if n >= X87_VALID:
            return None                      # empty register: nothing to read
        fx = bytearray(s["fx"])
        off = 32 + 16 * n
        if j % 4 == 3:
            fx[off + 9] ^= 0x80              # sign
        elif j % 4 == 2:
            fx[off + 8] ^= 0x01              # exponent
        else:
            fx[off + 7] ^= [0x40, 0x15][j % 2]      # high mantissa bits (integer bit kept)
            fx[off + 5] ^= 0xA5
        s["fx"] = bytes(fx)
    elif k == "fc":
        fx = bytearray(s["fx"])
        struct.pack_into("<H", fx, 2, struct.unpack_from("<H", fx, 2)[0] ^ (1 << FC_BIT[n]))
        s["fx"] = bytes(fx)
    elif k == "fcw":
        fx = bytearray(s["fx"])
        struct.pack_into("<H", fx, 0, struct.unpack_from("<H", fx, 0)[0] ^ [0x0400, 0x0C00, 0x0800, 0x0100][j % 4])      # rounding control / precision control
        s["fx"] = bytes(fx)
    elif k == "ftop":
        return None                          # renames every register: not a single-location change
    elif k == "mem":
        d = bytearray(s["data"])
        d[n] ^= [0xFF, 0x01, 0x80][j % 3]
        s["data"] = bytes(d)
    return s


def rw_sets(ex, pre_ids, mem, fxmode):
    """names and memory cells of the union of get_r(mem_read=True) / get_w()"""
    R, W = set(), set()
    for e in ex:
        R |= set(e.get_r(mem_read=True))
        W |= set(e.get_w())
    env = irsem.Env(pre_ids, 0, mem)

    def split(S):
        names, cells = set(), []
        for x in S:
            c = irsem.cname(x)
            if c == "ExprId":
                names.add(x.name)
            elif c == "ExprMem":
                try:
                    a = irsem.ev_lazy(x.arg, env)
                except Exception:
                    continue
                cells.append((a & 0xFFFFFFFF, x.size // 8))
        return names, cells
    return split(R), split(W)


def covered(loc, names, cells):
    k, n = loc
    if k == "reg":
        return n in names
    if k == "flag":
        return n in names
    if k == "mm":
        return ("mm%d" % n) in names
    if k == "xmm":
        return ("xmm%d" % n) in names
    if k == "st":
        return ("float_st%d" % n) in names
    if k == "fc":
        return ("float_c%d" % n) in names
    if k == "ftop":
        return "float_stack_ptr" in names
    if k == "fcw":
        return "reg_float_control" in names
    if k == "mem":
        a = cpu.WIN + n
        return any((a - c) % (1 << 32) < l for c, l in cells)
    return True


def loc_name(loc):
    return "%s:%s" % (loc[0], loc[1]) if loc[0] not in ("mem",) else "memory-operand"


def loc_class(loc):
    """for the signature: the kind of location (individual general registers are named, mm/xmm numbers are not)"""
    k, n = loc
    if k in ("reg", "flag"):
        return "%s:%s" % (k, n)
    if k == "mem":
        return "memory"
    if k == "fc":
        return "x87:c%d" % n
    if k in ("st", "ftop", "fcw"):
        return "x87:" + k
    return k


def worker(run, st_, k, items):
    c = cpu.CPU()
    npairs = run.pick(2, 6)
    nstates = run.pick(3, 10)
    for inst, code in items:
        try:
            r, err = lift(code, entry_of(inst))
        except Exception:
            st_.exclude("lifting_raises(C11)")
            continue
        if err:
            st_.exclude("decode_disagrees_with_gas(C01)")
            continue
        ins, ex = r
        if not all(irsem.cname(e) == "ExprAff" for e in ex):
            st_.exclude("lifted_list_ill_formed(C11)")
            continue
        fxmode = "x87" if inst["family"] == "x87" else inst["family"] in ("mmx", "sse")
        und = None
        for sidx in range(nstates):
            s = make_state(inst, sidx, run.seed)
            if fxmode == "x87":
                s["fx"] = x87_image((run.seed, inst["text"], sidx), sidx % 8)
                if sidx < 2:
                    # directed: all condition codes and status flags clear / set, so that "the instruction clears (sets) flag X" is exposed at every seed
                    fxb = bytearray(s["fx"])
                    w = struct.unpack_from("<H", fxb, 2)[0] & ~0x4700
                    struct.pack_into("<H", fxb, 2, w | (0x4700 if sidx else 0))
                    s["fx"] = bytes(fxb)
                    s["eflags"] = (s["eflags"] & ~sum(1 << BIT[n] for n in FLAGS)) | (sum(1 << BIT[n] for n in FLAGS) if sidx else 0)
                d = bytearray(s["data"])
                d[0x210:0x21a] = f80((run.seed, inst["text"], sidx, "m"))      # a well-formed number under the memory operand
                if inst["form"] == "m16" and "cw" in inst["text"]:
                    d[0x210:0x212] = struct.pack("<H", [0x037F, 0x0F7F, 0x077F, 0x027F][sidx % 4])      # fldcw: exceptions stay masked
                s["data"] = bytes(d)
            elif fxmode:
                s["fx"] = fx_image((run.seed, inst["text"], sidx))
                mn_ = inst["text"].split()[0]
                if "0x10(%esi)" in inst["text"] and (mn_ in CVT_F64 or mn_ in CVT_F32):
                    # well-formed moderate numbers under the memory source: with random bytes nearly every source is out of range and
                    # converts to the same "indefinite" value, which hides the dependency on its upper bytes
                    d = bytearray(s["data"])
                    d[0x210:0x220] = struct.pack("<dd", 1000.5 + sidx, -77.25 - sidx) if mn_ in CVT_F64 else struct.pack("<ffff", 1000.5 + sidx, -77.25 - sidx, 3.0 + sidx, -9.5)
                    s["data"] = bytes(d)
            if inst["family"] == "popf":
                # the popped image: status flags, DF, NT and ID free; TF / AC / VM / RF clear (they would trap or fault in the executor)
                d = bytearray(s["data"])
                o_ = s["regs"][4] - cpu.WIN
                v_ = struct.unpack_from("<I", d, o_)[0] & (cpu.FLAG_MASK | (1 << 14) | (1 << 21)) | 0x202
                if sidx % 2:
                    v_ |= 1 << 14
                struct.pack_into("<I", d, o_, v_)
                s["data"] = bytes(d)
            und = undefined_flags(inst, s)
            stubs = [entry_of(inst) + len(code)] + [entry_of(inst) + t for t in inst.get("targets", [])] + s["extra_stubs"]
            base_case = {"code": code, "stubs": stubs, "regs": s["regs"], "eflags": s["eflags"], "data": s["data"], "fx": s.get("fx"), "low": bool(inst.get("low"))}
            base = c.run([base_case])[0]
            st_.ev()
            if base["fault"] is not None:
                st_.exclude("cpu_fault")
                continue
            ids = dict(zip(GPR, s["regs"]))
            for n in FLAGS + ["df"]:
                ids[n] = (s["eflags"] >> BIT[n]) & 1
            mem = dict((cpu.WIN + i, b) for i, b in enumerate(s["data"]))
            try:
                (rn, rc), (wn, wc) = rw_sets(ex, ids, mem, fxmode)
            except Exception as e:
                st_.fail(("raise", type(e).__name__, inst["family"]), "%s: computing the read/write sets raised %s: %s" % (inst["text"], type(e).__name__, e),
                         {"inst": inst, "code": code.hex(), "state": sidx, "seed": run.seed})
                break
            locs = locations(inst, fxmode)
            # ---- write probing
            pre = {"regs": s["regs"], "eflags": s["eflags"], "data": s["data"], "fx": s.get("fx"), "low": bool(inst.get("low"))}
            changed = []
            for loc in locs:
                if loc == ("reg", "esp") and False:
                    continue
                if get_loc(pre, loc) != get_loc(base, loc):
                    changed.append(loc)
            for i in range(cpu.WIN_LEN):
                if s["data"][i] != base["data"][i]:
                    changed.append(("mem", i))
            for loc in changed:
                if not covered(loc, wn, wc):
                    report(st_, inst, code, sidx, run, "write", loc, "%s (%s): the CPU changed %s but the write set is %s + cells %s" % (
                        inst["text"], code.hex(), loc_name(loc), sorted(wn), [(hex(a), l) for a, l in wc]))
                else:
                    st_.klass("write_dependency_covered")
                    st_.nt(("w", inst["text"], loc_class(loc)))
            # ---- read probing
            touched = set()
            for a, l in rc + wc:
                for i in range(l):
                    if cpu.WIN <= a + i < cpu.WIN + cpu.WIN_LEN:
                        touched.add(a + i - cpu.WIN)
            # memory bytes near the operands (so that an omitted cell is noticed too)
            probe_mem = sorted(touched)[:24] + [0x210, 0x211, 0x213, 0x217, 0x218, 0x219, 0x21f]
            cases, meta = [], []
            for loc in locs + [("mem", i) for i in sorted(set(probe_mem))]:
                for j in range(npairs):
                    s2 = perturb(s, loc, j)
                    if s2 is None:
                        continue
                    cases.append({"code": code, "stubs": stubs, "regs": s2["regs"], "eflags": s2["eflags"], "data": s2["data"], "fx": s2.get("fx"), "low": bool(inst.get("low"))})
                    meta.append((loc, s2))
            outs = c.run(cases)
            for (loc, s2), o in zip(meta, outs):
                st_.ev()
                if o["fault"] is not None:
                    continue
                # outputs: every location except the perturbed one itself (unless the instruction rewrote it differently) and undefined flags
                dep = False
                for l2 in locs + [("mem", i) for i in range(0, cpu.WIN_LEN)]:
                    if l2[0] == "flag" and l2[1] in und:
                        continue
                    a, b = get_loc(base, l2), get_loc(o, l2)
                    if l2 == loc:
                        # the location itself: a dependency only if its change is not simply carried through
                        pa, pb = get_loc(pre, l2), get_loc(s2, l2)
                        if a == pa and b == pb and pa != pb and l2[0] in ("flag", "reg") and covered(l2, wn, wc) and not covered(l2, rn, rc) \
                                and inst["family"] not in ("bsf", "bsr"):
                            # (bsf / bsr leave their destination architecturally undefined for a zero source: not judged)
                            # the processor carries the location through unchanged (two different initial values, everything else
                            # equal), yet the lifted semantics claim to WRITE it: a semantics that writes it can only produce the
                            # processor's result by reading it, so its absence from the read set omits a real dependency
                            dep = True
                            break
                        if (a == pa and b == pb) or (a == b):
                            continue
                        if isinstance(a, int) and isinstance(pa, int) and (a ^ b) == (pa ^ pb) and l2[0] != "flag":
                            # carried through a partial write (sub-register / read-modify of other bits): not decisive
                            continue
                        dep = True
                        break
                    if a != b:
                        dep = True
                        break
                if o["marker"] != base["marker"]:
                    dep = True
                if not dep:
                    continue
                if loc[0] == "reg" and loc[1] in ("esi", "edi", "esp") and o["data"] != base["data"] and False:
                    pass
                if covered(loc, rn, rc):
                    st_.klass("read_dependency_covered")
                    st_.nt(("r", inst["text"], loc_class(loc)))
                    if loc[0] != "mem":
                        st_.sample({"instruction": inst["text"], "depends_on": loc_name(loc)})
                else:
                    report(st_, inst, code, sidx, run, "read", loc, "%s (%s): the result depends on %s but the read set is %s + cells %s" % (
                        inst["text"], code.hex(), loc_name(loc), sorted(rn), [(hex(a), l) for a, l in rc]))
    c.close()


def report(st_, inst, code, sidx, run, kind, loc, det):
    sig = runner.norm_sig((kind, inst["family"] if inst["family"] not in ("mmx", "sse", "x87") else inst["text"].split()[0], inst["form"], loc_class(loc)))
    if inst["family"] == "x87" and loc_class(loc) in ("x87:c1", "x87:fcw"):
        # two root causes that are not per instruction: the lifter never models C1 outside the compare family, and never reads the control word
        # (rounding / precision control) in arithmetic; whether a given mnemonic exposes them depends on the data, so they are one bucket each
        sig = runner.norm_sig((kind, "x87", "any", loc_class(loc)))
    if not any(f[0] == sig for f in st_.failures):
        st_.fail(sig, det, {"inst": inst, "code": code.hex(), "state": sidx, "seed": run.seed, "sig": list(sig)})


def count_cls(i):
    """class of an immediate shift / rotate count: the processor masks it to 5 bits, so 32 behaves like 0 (nothing is written and the
    old flags shine through) although it is not written as 0; counts at or above the operand width are their own class for 8 / 16 bits"""
    c = i.get("count")
    if c in (None, 0, 1, "cl"):
        return c
    if c & 31 == 0:
        return "0-after-masking"
    return "<w" if (c & 31) < i["size"] else ">=w"


def all_instances(run):
    insts = [i for i in coregen.instances("quick")]
    if run.quick:
        # one representative per (family, size, form, count class)
        seen, keep = set(), []
        for i in insts:
            ops = i["text"].split(None, 1)[1].split(", ") if " " in i["text"] else []
            same = len(ops) == 2 and ops[0] == ops[1]          # op r, r (xor / sub / sbb idioms) is its own class
            key = (i["family"], i["size"], i["form"], i.get("cc"), count_cls(i), same)
            if key in seen:
                continue
            seen.add(key)
            keep.append(i)
        insts = keep
    # segment-register pushes / pops under the operand- and address-size prefixes (the stack slot follows the operand size only)
    for sr in ("es", "ds", "fs", "gs"):
        for text, size, form in (("pushl %%%s" % sr, 32, "sreg"), ("pushw %%%s" % sr, 16, "sreg-o16"), ("addr16 pushl %%%s" % sr, 32, "sreg-a16"),
                                 ("addr16 pushw %%%s" % sr, 16, "sreg-o16-a16")):
            insts.append({"text": text, "family": "push", "size": size, "form": form})
    # flag-register transfers: popf writes (and pushf reads) more of EFLAGS than the status flags - NT among them, which user code may set
    for text, fam, size in (("popfl", "popf", 32), ("popfw", "popf", 16), ("pushfl", "pushf", 32), ("pushfw", "pushf", 16)):
        insts.append({"text": text, "family": fam, "size": size, "form": "none"})
    for text, form in MMX:
        insts.append({"text": text, "family": "mmx", "size": 64, "form": form})
    for text, form in SSE:
        insts.append({"text": text, "family": "sse", "size": 128, "form": form})
    for text, form in X87:
        insts.append({"text": text, "family": "x87", "size": 80, "form": form})
    return insts


def main(run):
    refs.need("as")
    cpu.exe()
    run.rule = ("instances: integer core (one per family x size x form x count class x same-register idiom in the quick tier) + %d MMX and %d SSE register/memory forms; per instance several states; "
                "write probing on each state, read probing on pairs differing in one register, flag, mm/xmm register or memory byte. non-trivial = an exposed dependency that is "
                "covered; distinct = (read|write, instruction, location kind)" % (len(MMX), len(SSE)))
    run.assumptions = ["this machine's CPU defines the real dependencies; only locations the lifter has names for are observed (GPRs, status flags + DF, mm/xmm registers, memory bytes)",
                       "x87 register-stack instructions are not probed (FXSAVE stack order vs the lifter's float_st names: limit stated in DESIGN.md)",
                       "undefined flags are not used as outputs in read probing but count as modified in write probing", "a dependency is found only if some generated pair exposes it"]
    insts = all_instances(run)
    codes = refs.gas([i["text"] for i in insts], syntax="att", scratch=run.scratch)
    items = [(i, c) for i, c in zip(insts, codes) if c is not None]
    run.extra["instances"] = len(items)
    runner.pmap(run, worker, runner.chunks(items, 64))


def replay(run, case):
    st_ = runner.Stats()

    class R(object):
        pass
    r = R()
    r.seed = case["seed"]
    r.pick = lambda a, b: max(a, case["state"] + 1) if a in (3,) else a
    r.quick = True
    worker(r, st_, 0, [(case["inst"], bytes.fromhex(case["code"]))])
    want = run.want_sig
    for sig, det, _ in st_.failures:
        if want is None or sig == want:
            return (sig, det)
    return None
