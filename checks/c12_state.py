"""C12 - API results depend only on explicit inputs (no hidden state between calls).

(1) Histories: Hypothesis lists of up to 50 API calls (dis, asm, asm_att, lift, render, expr_simp, eval_expr on machines given by
    their bindings, emulation of short sequences), including calls that raise, calls on different machine states, and evaluations
    of registers absent from a state; expressions are built on the shared module-level register objects.
    Oracle: the result of every call must equal its *pristine* result - the same call executed in a child forked from a zygote
    process that has imported miasmX but never called it (the result "with an empty history").  Inputs passed for reading must be
    structurally unchanged after the call, and a digest of the shared instruction/register tables must be unchanged at the end.
(2) Parser-table cache configurations: one corpus of assembly lines is processed by child processes whose TMPDIR is empty,
    populated, read-only, or holds stale / corrupt / foreign PLY tables; all per-item outputs (and the state of sys.path after
    import) must be identical to the empty-directory run.
"""
import os
import sys
import json
import stat
import shutil
import subprocess
from hypothesis import strategies as st
from vlib import runner, probes, exprgen, x86space, asmgen

HERE = os.path.dirname(os.path.dirname(os.path.abspath(__file__)))

# zygotes are forked at import time, before this process executes any miasmX API call (one per worker)
ZYGOTES = []
if os.environ.get("VERIF_C12_NO_ZYGOTE") is None:
    for _ in range(runner.NCPU + 1):
        z = probes.Pristine()
        z.start()
        ZYGOTES.append(z)

REGS32 = ["eax", "ebx", "ecx", "edx", "esi", "edi"]
FLAGS1 = ["zf", "cf"]


def reg_expr(depth=2):
    """expressions over the shared register objects"""
    leaf = st.one_of(st.sampled_from(REGS32).map(lambda n: ["regid", n, 32]), exprgen.const(32))

    def ext(ch):
        return st.one_of(
            st.tuples(st.sampled_from(["+", "^", "&", "|"]), ch, ch).map(lambda t: ["op", t[0], [t[1], t[2]]]),
            ch.map(lambda a: ["op", "-", [a]]),
            ch.map(lambda a: ["mem", a, 32, None]),
            st.tuples(st.sampled_from(FLAGS1), ch, ch).map(lambda t: ["cond", ["regid", t[0], 1], t[1], t[2]]),
            ch.map(lambda a: ["compose", [[["slice", a, 0, 16], 0, 16], [["slice", a, 0, 16], 16, 32]]]),
        )
    return st.recursive(leaf, ext, max_leaves=6)


@st.composite
def machine_spec(draw):
    ids = {}
    for n in draw(st.lists(st.sampled_from(REGS32), max_size=4, unique=True)):
        ids[n] = [32, draw(st.one_of(exprgen.const(32), st.sampled_from(REGS32).map(lambda r: ["id", "init_" + r, 32]),
                                     st.just(["op", "+", [["id", "init_" + n, 32], ["int", 32, 4]]])))]
    for n in draw(st.lists(st.sampled_from(FLAGS1), max_size=1, unique=True)):
        ids[n] = [1, ["int", 1, draw(st.integers(0, 1))]]
    mems = []
    if draw(st.booleans()):
        mems.append([["int", 32, 0x1000], 32, draw(exprgen.const(32))])
    return {"ids": ids, "mems": mems}


@st.composite
def cell_machine(draw):
    """a state that holds one or two narrow / wide memory cells at neighbouring constant addresses (and no register)"""
    mems, used = [], set()
    for _ in range(draw(st.integers(1, 2))):
        off = draw(st.integers(0, 5))
        if off in used:
            continue
        used.add(off)
        w = draw(st.sampled_from([8, 8, 16, 32]))
        mems.append([["int", 32, 0x1000 + off], w, draw(exprgen.const(w))])
    return {"ids": {}, "mems": mems}


def memread():
    return st.tuples(st.integers(0, 4), st.sampled_from([8, 16, 32, 32])).map(lambda t: ["mem", ["int", 32, 0x1000 + t[0]], t[1], None])


SEGMEM = ["64a100000000", "648b03", "268b01", "65ff30", "2e8b4d08", "368b0424", "64890d10000000", "3e8b00", "26a5", "6466a31000"]
SEGSETS = [[], [4], [0], [4, 5], [0, 1, 2, 3, 4, 5]]


def probe_strategy(bytes_pool, lines_pool):
    b = st.sampled_from(bytes_pool)
    fams = families(bytes_pool)
    fam = st.sampled_from(sorted(fams)).flatmap(lambda f: st.tuples(st.sampled_from(fams[f]), st.lists(st.sampled_from(fams[f]), min_size=1, max_size=3)))
    famb = st.sampled_from(sorted(fams)).flatmap(lambda f: st.sampled_from(fams[f]))
    return st.one_of(
        famb.map(lambda x: {"k": "lift", "b": x}),
        st.sampled_from(RAISING).map(lambda l: {"k": "emul", "b": l}),
        st.sampled_from([m for m in MOVES if m in bytes_pool] or bytes_pool[:1]).map(lambda x: {"k": "emul", "b": [x]}),
        famb.map(lambda x: {"k": "liftsimp", "b": x}),
        st.lists(famb, min_size=1, max_size=3).map(lambda l: {"k": "emul", "b": l}),
        fam.map(lambda t: {"k": "hold", "b": t[0], "then": [{"k": "dis", "b": x} for x in t[1]]}),
        st.tuples(b, st.lists(b, min_size=1, max_size=3)).map(lambda t: {"k": "hold", "b": t[0], "then": [{"k": "lift", "b": x} for x in t[1]]}),
        b.map(lambda x: {"k": "dis", "b": x}),
        b.map(lambda x: {"k": "lift", "b": x}),
        b.map(lambda x: {"k": "liftsimp", "b": x}),
        b.map(lambda x: {"k": "render", "b": x}),
        st.sampled_from(lines_pool).map(lambda t: {"k": "asm", "l": t[1], "att": int(t[0])}),
        st.sampled_from(["mov eax, ", "bogus line", "add eax, [", "fadd ST, ST(1)", "mov [eax*3*5], 1", "push"]).map(lambda l: {"k": "asm", "l": l, "att": 0}),
        reg_expr().map(lambda s: {"k": "simp", "s": s}),
        exprgen.any_expr(2).map(lambda s: {"k": "simp", "s": s}),
        st.tuples(machine_spec(), reg_expr()).map(lambda t: {"k": "eval", "m": t[0], "s": t[1]}),
        st.tuples(cell_machine(), memread()).map(lambda t: {"k": "eval", "m": t[0], "s": t[1]}),
        st.tuples(st.sampled_from(SEGMEM), st.sampled_from(SEGSETS), st.sampled_from(SEGSETS)).map(lambda t: {"k": "relift", "b": t[0], "first": t[1], "second": t[2]}),
        st.lists(b, min_size=1, max_size=4).map(lambda l: {"k": "emul", "b": l}),
        st.lists(st.sampled_from(REPS), min_size=1, max_size=4).map(lambda l: {"k": "emul", "b": ["fc"] + l}),
        st.tuples(st.sampled_from(SHARED_REGS), st.lists(st.sampled_from(REPS + MOVES), min_size=1, max_size=3)).map(lambda t: {"k": "emul-shared", "regs": t[0], "b": t[1]}),
        st.sampled_from(FAM_LINES).map(lambda t: {"k": "asm", "l": t[1], "att": int(t[0])}),
        st.sampled_from(FAM_LINES).map(lambda t: {"k": "asm", "l": t[1], "att": int(t[0])}),
    )


ACC = (["%02x01" % o for o in (0x04, 0x0C, 0x14, 0x1C, 0x24, 0x2C, 0x34, 0x3C, 0xA8)] + ["%02x01000000" % o for o in (0x05, 0x0D, 0x15, 0x1D, 0x25, 0x2D, 0x35, 0x3D, 0xA9)]
       + ["66%02x0100" % o for o in (0x05, 0x2D, 0x3D, 0xA9)] + ["e410", "e510", "66e510", "ec", "ed", "66ed", "e610", "e710", "91", "6693", "a000100000", "a100100000", "66a100100000"])
MOVES = ["89c1", "89d9", "89c2", "89d8", "01c8", "29d8", "8d0403", "31c8"]
# emulations that raise inside eval_instr after some registers were evaluated (rol / rcl on concrete operands: listed C11 / C06 findings)
RAISING = [["b834120000", "c1c005"], ["bb00100000", "d1c3"], ["b9ffff0000", "d1d1"], ["b834120000", "89c3", "c1c308"]]
RETS = ["c3", "66c3", "cb", "66cb", "c20400", "66c20400", "ca0800", "c9", "66c9", "cf", "66cf", "60", "6660", "61", "6661", "9c", "669c", "9d", "669d", "98", "6698", "99", "6699"]
X87 = ["d9%02x" % m for m in range(0xE0, 0x100)] + ["ded9", "dae9", "d8d9", "d8c1", "dcc1", "dec1", "d8e1", "dce1", "d8e9", "dce9", "d9c9", "ddd9", "dde1", "dfe0"]


# rep-prefixed string instructions with the set-up that makes their count concrete; state dictionaries for the shared-dictionary probe
# string instructions and xlat without a repeat prefix, alone and under the address-size / operand-size prefixes: forms of one mnemonic share
# pointer-update helpers and step constants, so a memo keyed too coarsely shows only when two of them are lifted in one process (seed C11-r9-2)
STRS = ["a4", "67a4", "a5", "67a5", "66a5", "aa", "67aa", "ab", "67ab", "66ab", "ad", "67ad", "ae", "67ae", "a7", "67a7", "d7", "67d7"]
REPS = ["b903000000", "b901000000", "be00200000", "bf00300000", "b041", "f3a4", "f3a5", "f3aa", "f3ab", "f3a6", "f2ae", "f3ac", "89ca", "89cb", "51", "59", "49", "e2fe"]
SHARED_REGS = [{"ecx": 3, "df": 0}, {"ecx": 0, "df": 0}, {"ecx": 2, "df": 1, "eax": 0x41}, {"ecx": 1, "df": 0, "esi": 0x2000, "edi": 0x3000}, {"eax": 7, "ebx": 9}]
# assembly lines that share their operand TEXT across mnemonics, among them the contexts in which the assembler adjusts a parsed operand
# (push WORD PTR imm, lea, prefetch, pextrw / pinsrw / shufps, x87 memory forms): what one line does to an operand must not reach the next
OPTEXTS = ["WORD PTR 20", "[esi+48]", "DWORD PTR [eax+4]", "WORD PTR [ebx]", "20", "[ebx+ecx*2]", "BYTE PTR [edi]", "QWORD PTR [esi+48]"]
TEMPLATES = ["push {}", "mov ax, {}", "mov eax, {}", "lea eax, {}", "inc {}", "prefetcht0 {}", "fild {}", "pinsrw xmm1, {}, 1", "cmp {}, 3", "movzx ecx, {}", "fld {}", "pop {}"]
ATT_OPTEXTS = ["20", "48(%esi)", "4(%eax)", "(%ebx)", "$20", "(%ebx,%ecx,2)"]
ATT_TEMPLATES = ["pushw {}", "pushl {}", "movw {}, %ax", "movl {}, %eax", "leal {}, %eax", "incl {}", "prefetcht0 {}", "filds {}", "cmpl $3, {}", "movzwl {}, %ecx"]
FAM_LINES = [(False, t.replace("{}", o)) for o in OPTEXTS for t in TEMPLATES] + [(False, "pextrw eax, xmm1, 3"), (False, "shufps xmm1, xmm2, 3"), (False, "pinsrw xmm1, eax, 3")] + \
            [(True, t.replace("{}", o)) for o in ATT_OPTEXTS for t in ATT_TEMPLATES]


def line_pairs():
    """every ordered pair of family lines with the same operand text (same syntax), as two-call histories"""
    out = []
    for att, texts, temps in ((0, OPTEXTS, TEMPLATES), (1, ATT_OPTEXTS, ATT_TEMPLATES)):
        for o in texts:
            for a in temps:
                for b in temps:
                    if a != b:
                        out.append([{"k": "asm", "l": a.replace("{}", o), "att": att}, {"k": "asm", "l": b.replace("{}", o), "att": att}])
    return out


def lift_pairs(pool):
    """every ordered pair of two different byte strings of one family, lifted one after the other (two-call histories): strings of a
    family share a mnemonic, an implicit operand or a helper, so whatever the first lift leaves behind is what the second would pick up"""
    out = []
    fams = families(pool)
    for f in ("returns", "x87-stack", "rep", "moves", "accumulator", "strings"):
        ms = fams.get(f, [])[:24 if f in ("returns", "strings") else 16]
        for a in ms:
            for b in ms:
                if a != b:
                    out.append([{"k": "lift", "b": a}, {"k": "lift", "b": b}])
    return out


def cell_reads():
    """one-call histories: a read-only evaluation of a memory read over two ADJACENT constant cells (every width pair, three offsets) at
    every width / start that covers or meets them: the machine state passed in for reading must stay what it was"""
    out = []
    for w1 in (8, 16, 32):
        for w2 in (8, 16, 32):
            for off in (0, 1, 2):
                o2 = off + w1 // 8
                mems = [[["int", 32, 0x1000 + off], w1, ["int", w1, 0x11223344 & ((1 << w1) - 1)]], [["int", 32, 0x1000 + o2], w2, ["int", w2, 0x55667788 & ((1 << w2) - 1)]]]
                for rw in (8, 16, 32):
                    for ro in sorted(set([off, o2, max(0, off - 1)])):
                        out.append([{"k": "eval", "m": {"ids": {}, "mems": mems}, "s": ["mem", ["int", 32, 0x1000 + ro], rw, None]}])
    return out


def w_pairs(run, st_, k, chunk):
    zyg = ZYGOTES[k % len(ZYGOTES)]
    for h in chunk:
        st_.ev()
        fails = run_history(h, zyg)
        st_.klass("operand-text-pair" if h[0]["k"] == "asm" else "adjacent-cells-read" if h[0]["k"] == "eval" else "family-lift-pair")
        bad = False
        for f in fails:
            sig, det = runner.norm_sig(f[0]), f[1]
            if sig in run.known:
                st_.known_hits[sig] += 1
            else:
                bad = True
                if not any(x[0] == sig for x in st_.failures):
                    st_.fail(sig, det, {"history": f[2] if len(f) > 2 else h})
        if not bad:
            st_.nt(json.dumps(h, sort_keys=True))


def families(pool):
    """groups of byte strings whose decodings share table rows / helper results (same implicit operand, same sub-register objects)"""
    fams = {"rep": [x for x in REPS if x in pool], "accumulator": [x for x in ACC if x in pool], "x87": [x for x in X87 if x in pool], "returns": [x for x in RETS if x in pool], "moves": [x for x in MOVES if x in pool], "strings": [x for x in STRS if x in pool],
            "x87-stack": [x for x in ("d9f7", "d9f6", "d9f1", "d9f3", "d9f9", "d8d9", "ddd9", "dae9", "ded9", "dec1", "d9c9") if x in pool],
            "subreg": [x for x in pool if len(x) in (4, 6) and x[:2] in ("88", "8a", "86", "00") or x[:4] in ("6689", "0fb6", "6601")]}
    return dict((k, v) for k, v in fams.items() if v)


def eval_features(p):
    """for the signature: does the evaluated expression mention a register that is absent from / bound in the state?"""
    if p["k"] != "eval":
        return ""
    ids = exprgen.sids(p["s"])
    bound = set(p["m"]["ids"])
    f = []
    if any(n in bound for n in ids):
        f.append("bound-register")
    if any(n not in bound for n in ids):
        f.append("absent-register")
    if "mem" in json.dumps(p["s"]):
        f.append("memory")
    return "+".join(f)


def feat(p):
    return p["k"] + (":" + eval_features(p) if p["k"] == "eval" else "")


def run_history(h, zyg):
    """-> list of failures (sig, detail).  The history runs in one child forked from the pristine zygote (so it really starts from an
    empty history); every call is compared with the same call alone in another fresh child."""
    fails = []
    out = zyg.history(h)
    if not isinstance(out, dict):
        raise runner.Inconclusive("history child failed: %r" % (out,))
    for idx, (p, (res, mut)) in enumerate(zip(h, out["steps"])):
        want = zyg.result(p)
        if res != want:
            # the earliest single earlier call that alone changes this call's result
            culprit = None
            for j in range(idx):
                o2 = zyg.history([h[j], p], fingerprint=False)
                if isinstance(o2, dict) and o2["steps"][1][0] != want:
                    culprit = j
                    break
            pair = [h[culprit], p] if culprit is not None else h[:idx + 1]
            mech = None
            for r in probes.RESETS:
                o3 = zyg.history(pair, fingerprint=False, reset=r)
                if isinstance(o3, dict) and o3["steps"][-1][0] == want:
                    mech = r
                    break
            sig = ("result-differs", "mechanism:" + mech) if mech else ("result-differs", feat(p), "after:" + (feat(h[culprit]) if culprit is not None else "several-calls"))
            fails.append((sig, "call #%d %s returned %s; with an empty history it returns %s (%s%s)" % (
                              idx, json.dumps(p)[:300], json.dumps(res)[:200], json.dumps(want)[:200],
                              ("already after the single call %s" % json.dumps(h[culprit])[:300]) if culprit is not None else "no single earlier call reproduces it",
                              ("; clearing the hidden state '%s' before the call restores the result" % mech) if mech else ""), pair))
            break
        if mut:
            o2 = zyg.history([p], fingerprint=False)
            alone = isinstance(o2, dict) and o2["steps"][0][1] == mut
            fails.append((("input-mutated", p["k"], mut), "call #%d %s: %s%s" % (idx, json.dumps(p)[:300], mut, " (also as the only call)" if alone else ""), [p] if alone else h[:idx + 1]))
    if out["tables_changed"]:
        # which single call does it?
        who = None
        for p in h:
            o2 = zyg.history([p])
            if isinstance(o2, dict) and o2["tables_changed"]:
                who = p
                break
        fails.append((("shared-tables-changed", feat(who) if who else "several-calls"), "the digest of the shared instruction/register tables changed during the history%s" % (
            (": already by the single call %s" % json.dumps(who)[:300]) if who else "")))
    return fails


def pools(run):
    from miasmx.arch.ia32_arch import x86mnemo
    bs = []
    # decodable strings: NOTE this runs in the main process before the workers fork; the zygotes were forked earlier and stay pristine
    with runner.quiet():
        for b in x86space.cases("quick", run.seed, thin=97) + x86space.control_flow_cases()[::11]:
            try:
                i = x86mnemo.dis(b)
            except Exception:
                continue
            if i is not None:
                bs.append(bytes(b[:i.l]).hex())
    bs = sorted(set(bs))[:600]
    # implicit-accumulator and x87 forms (operands come from shared descriptors / helper lists), and
    # sub-register forms: their operands are the shared slice objects of the register tables
    with runner.quiet():
        for x in ACC + X87 + RETS + MOVES + REPS + STRS + ["fc", "fd"]:
            try:
                if x86mnemo.dis(bytes.fromhex(x)) is not None:
                    bs.append(x)
            except Exception:
                pass
    for op in ("88", "8a", "86", "6689", "0fb6", "00", "6601"):
        for modrm in range(0xC0, 0x100):
            bs.append(op + "%02x" % modrm)
    from checks.c02_asm import collect
    lines = []
    for sp in collect(asmgen.spec(), 400, run.seed):
        lines.append((False, asmgen.intel(sp)))
        a = asmgen.att(sp)
        if a:
            lines.append((True, a))
    return bs, lines


def w_hist(run, st_, k, item):
    n, bs, lines = item
    zyg = ZYGOTES[k % len(ZYGOTES)]

    def orc(h):
        fails = run_history(h, zyg)
        st_.klass("history_len_%d" % (10 * (len(h) // 10)))
        first = None
        for f in fails:
            sig, det = runner.norm_sig(f[0]), f[1]
            if sig in run.known:
                st_.known_hits[sig] += 1
            elif first is None:
                first = (sig, det, {"history": f[2] if len(f) > 2 else h})
        if first is None and len(h) >= 2:
            ks = [p["k"] for p in h]
            if any(ks[i] == ks[j] for i in range(len(ks)) for j in range(i + 2, len(ks))):
                st_.nt(json.dumps(h, sort_keys=True))
                st_.sample([dict((a, (b if len(json.dumps(b)) < 80 else "...")) for a, b in p.items()) for p in h[:6]])
        return first
    runner.hyp_drive(run, st_, st.lists(probe_strategy(bs, lines), min_size=2, max_size=run.pick(25, 50)), orc, n, run.seed * 1000 + k,
                     to_case=lambda h: {"history": h}, shrink=False)


# ---- parser-table cache configurations ---------------------------------------------------------
def cache_items(run):
    from checks.c02_asm import collect
    items = [{"t": "syspath"}]
    for l in ("mov eax, DWORD PTR [ecx*4+ebx]", "mov eax, DWORD PTR [ebx+ecx*4]", "lea edx, [esi*2+edi+8]", "add DWORD PTR [edx*8+eax+4], 1", "mov eax, [2*4+8]", "mov eax, 2+3*4"):
        items.append({"t": "asm", "l": l, "att": 0})
    for l in ("movl 2+3*4(%eax), %ebx", "movl $2+3*4, %ebx", "movl 8(%eax,%ecx,4), %edx"):
        items.append({"t": "asm", "l": l, "att": 1})
    for sp in collect(asmgen.spec(), run.pick(300, 2000), run.seed + 5):
        items.append({"t": "asm", "l": asmgen.intel(sp), "att": 0})
        a = asmgen.att(sp)
        if a:
            items.append({"t": "asm", "l": a, "att": 1})
    return items


def child(items_file, tmpdir, out):
    env = dict(os.environ)
    env["TMPDIR"] = tmpdir
    env["PYTHONPATH"] = "%s:%s:%s" % (os.environ.get("VERIF_REPO", "/repo"), HERE, os.path.join(HERE, ".deps"))
    env["VERIF_CHILD_SYSPATH"] = "1"
    p = subprocess.run([sys.executable, "-m", "vlib.child_items", items_file, out], env=env, cwd=HERE, stdout=subprocess.DEVNULL, stderr=subprocess.PIPE, timeout=1800)
    if p.returncode != 0 or not os.path.exists(out):
        return None, p.stderr.decode(errors="replace")[-300:]
    return json.load(open(out)), None


def cache_matrix(run):
    items = cache_items(run)
    itf = os.path.join(run.scratch, "cache_items.json")
    json.dump(items, open(itf, "w"))
    base = os.path.join(run.scratch, "cache")
    configs = []

    def fresh(name):
        d = os.path.join(base, name)
        shutil.rmtree(d, ignore_errors=True)
        os.makedirs(d)
        return d
    ref_dir = fresh("empty")
    ref, err = child(itf, ref_dir, os.path.join(run.scratch, "out-empty.json"))
    if ref is None:
        raise runner.Inconclusive("reference child failed: %s" % err)
    tables = [f for f in os.listdir(ref_dir) if f.endswith(".py")]
    if len(tables) < 2:
        run.klass("cache:tables_written_by_first_run=%d" % len(tables))

    def populated(name):
        d = fresh(name)
        for f in os.listdir(ref_dir):
            if os.path.isfile(os.path.join(ref_dir, f)):
                shutil.copy(os.path.join(ref_dir, f), d)
        # make sure both tables exist (a second run writes what the first could not)
        return d
    # second run on the same directory (populated by the previous process)
    configs.append(("populated", ref_dir))
    d = populated("readonly")
    configs.append(("populated-readonly", d))
    d = populated("tabversion")
    for f in os.listdir(d):
        if f.endswith(".py"):
            s = open(os.path.join(d, f)).read().replace("_tabversion = '3.2'", "_tabversion = '2.9'")
            open(os.path.join(d, f), "w").write(s)
    configs.append(("wrong-tabversion", d))
    d = populated("signature")
    for f in os.listdir(d):
        if f.endswith(".py"):
            s = open(os.path.join(d, f)).read()
            import re
            s = re.sub(r"_lr_signature = '([^']*)'", lambda m: "_lr_signature = '%s'" % ("0" * len(m.group(1))), s)
            open(os.path.join(d, f), "w").write(s)
    configs.append(("wrong-signature", d))
    d = populated("truncated")
    for f in os.listdir(d):
        if f.endswith(".py"):
            s = open(os.path.join(d, f)).read()
            open(os.path.join(d, f), "w").write(s[:len(s) // 2])
    configs.append(("truncated-table", d))
    d = populated("garbage")
    for f in os.listdir(d):
        if f.endswith(".py"):
            open(os.path.join(d, f), "w").write("this is ( not python\n")
    configs.append(("syntactically-broken-table", d))
    d = populated("swapped")
    fs = sorted(f for f in os.listdir(d) if f.endswith(".py"))
    if len(fs) == 2:
        # each parser finds the *other* grammar's table (a table generated from a different grammar, with that grammar's own signature)
        a, b = open(os.path.join(d, fs[0])).read(), open(os.path.join(d, fs[1])).read()
        open(os.path.join(d, fs[0]), "w").write(b)
        open(os.path.join(d, fs[1]), "w").write(a)
        configs.append(("table-of-another-grammar", d))
    # tables of "another revision" in which two rule functions of the same shape are bound the other way round (same LR automaton, same
    # function names, another signature): a parser that trusts the file instead of checking the signature acts on the wrong rule
    import re as _re
    for f in sorted(x for x in os.listdir(ref_dir) if x.endswith(".py")):
        src = open(os.path.join(ref_dir, f)).read()
        prods = _re.findall(r"\('[^']*','(\w+)',(\d+),'(\w+)','[^']*',\d+\)", src)
        groups = {}
        for lhs, ln, fn in prods:
            groups.setdefault((lhs, ln), [])
            if fn not in groups[(lhs, ln)]:
                groups[(lhs, ln)].append(fn)
        pairs = [(g[0], g[1]) for _, g in sorted(groups.items()) if len(g) >= 2]
        for n, (fa, fb) in enumerate(pairs[:run.pick(4, 12)]):
            d = populated("rebound-%s-%d" % (f[:-3], n))
            s2 = src.replace("'%s'" % fa, "'\0'").replace("'%s'" % fb, "'%s'" % fa).replace("'\0'", "'%s'" % fb)
            s2 = _re.sub(r"_lr_signature = (b?)'[^\n]*", lambda m: "_lr_signature = %s'tables of another revision of the grammar'" % m.group(1), s2)
            open(os.path.join(d, f), "w").write(s2)
            configs.append(("rebound-productions:%s:%s<->%s" % (f[4:-12], fa, fb), d))
    # tables written by an "earlier revision" of the grammars: today's sources minus one precedence declaration, same table names
    d = fresh("stale")
    repo = os.environ.get("VERIF_REPO", "/repo")
    stale_src = ("import sys\nfor path in sys.argv[1:]:\n    src = open(path).read()\n    old = \"    ('left','TIMES'),\\n\"\n"
                 "    if src.count(old) != 1: sys.exit(7)\n    g = {'__name__': 'old_revision', '__file__': path}\n    exec(compile(src.replace(old, ''), path, 'exec'), g)\n")
    env = dict(os.environ)
    env["TMPDIR"] = d
    env["PYTHONPATH"] = "%s:%s:%s" % (repo, HERE, os.path.join(HERE, ".deps"))
    pr = subprocess.run([sys.executable, "-c", stale_src, os.path.join(repo, "miasmx/core/parse_ad.py"), os.path.join(repo, "miasmx/arch/ia32_att.py")],
                        env=env, cwd=HERE, stdout=subprocess.DEVNULL, stderr=subprocess.PIPE, timeout=600)
    sigs = lambda dd: sorted(l for f in sorted(os.listdir(dd)) if f.endswith(".py") for l in open(os.path.join(dd, f)) if l.startswith("_lr_signature"))
    if pr.returncode == 0 and len([f for f in os.listdir(d) if f.endswith(".py")]) >= 1 and sigs(d) != sigs(ref_dir):
        configs.append(("stale-grammar-revision", d))
    else:
        run.exclude("cache:stale_revision_could_not_be_derived")
    for name, d in configs:
        if name == "populated-readonly":
            os.chmod(d, stat.S_IRUSR | stat.S_IXUSR)
        out, err = child(itf, d, os.path.join(run.scratch, "out-%s.json" % name))
        if name == "populated-readonly":
            os.chmod(d, stat.S_IRWXU)
        run.ev(len(items))
        if out is None:
            run.note(("cache", name, "child-crashed"), "with a %s parser-table directory the process fails: %s" % (name, err), {"cache": name})
            continue
        diffs = [(it, a, b) for it, a, b in zip(items, ref, out) if a != b]
        if diffs:
            it, a, b = diffs[0]
            kind = "sys.path" if it.get("t") == "syspath" else "asm-result"
            run.note(("cache", name, kind), "with a %s parser-table directory %d of %d items differ from the empty-directory run, first: %s -> %s vs %s" % (
                name, len(diffs), len(items), json.dumps(it)[:120], json.dumps(b)[:120], json.dumps(a)[:120]), {"cache": name})
        else:
            run.klass("cache_config_same:" + name)
            run.nt(("cache", name))
    run.extra["cache_configurations"] = [c[0] for c in configs]
    run.extra["cache_first_run_syspath"] = ref[0]
    # the empty-directory run itself: the import must leave sys.path alone
    if ref[0] != ["unchanged"]:
        run.note(("cache", "empty", "sys.path"), "importing the parsers with an empty table directory leaves sys.path = %s" % ref[0], {"cache": "empty"})


def main(run):
    run.rule = ("histories: Hypothesis lists of 2..%d API probes (dis, lift, render, asm, asm_att incl. lines that raise, expr_simp, eval_expr on machine states given by bindings "
                "over the shared register objects, short emulations); every result compared with the result of the same probe in a child forked from a pristine zygote. "
                "cache matrix: %d parser-table directory configurations. non-trivial = a history that repeats a probe kind after at least one intervening call; distinct = the history" % (run.pick(25, 50), 8))
    run.assumptions = ["a zygote forked before any API call defines the empty-history result", "object identity and repr addresses are never compared",
                       "cmt / arg_expr attributes of instruction objects are outputs and not part of the input snapshot"]
    bs, lines = pools(run)
    # self-test of the compound probes: a probe that raises inside the harness would compare "EXC" with "EXC" and never fail
    for p_ in ({"k": "emul-shared", "regs": SHARED_REGS[0], "b": ["f3aa"]}, {"k": "emul-shared", "regs": SHARED_REGS[2], "b": ["f3a4", "89ca"]}, {"k": "emul", "b": ["fc", "b903000000", "f3aa"]}):
        r_ = ZYGOTES[0].result(p_)
        if not isinstance(r_, list) or not any(x.startswith("@8[") for x in r_):
            raise runner.Inconclusive("probe self-test failed: %s -> %r" % (json.dumps(p_), r_))
    only = os.environ.get("VERIF_C12_ONLY")        # developer switch
    if only in (None, "hist"):
        runner.pmap(run, w_hist, [(run.pick(40, 1500), bs, lines)] * 16)
        prs = line_pairs()
        runner.pmap(run, w_pairs, runner.chunks(prs if run.tier == "thorough" else prs[run.seed % 3::3], 16))
        runner.pmap(run, w_pairs, runner.chunks(lift_pairs(bs), 16))
        runner.pmap(run, w_pairs, runner.chunks(cell_reads(), 16))
    if only in (None, "cache"):
        cache_matrix(run)
    for z in ZYGOTES:
        z.close()


def replay(run, case):
    if "cache" in case:
        st_ = run
        before = len(run.violations)
        # re-run the matrix and report the entry for this configuration
        class R(runner.Stats):
            pass
        r = R()
        r.scratch, r.seed, r.pick, r.extra = run.scratch, run.seed, (lambda a, b: a), {}
        notes = []
        r.note = lambda sig, det, case_: notes.append((runner.norm_sig(sig), det))
        cache_matrix(r)
        for sig, det in notes:
            if run.want_sig is None or sig == run.want_sig:
                return (sig, det)
        return None
    fails = run_history(case["history"], ZYGOTES[-1])
    for f in fails:
        sig = runner.norm_sig(f[0])
        if run.want_sig is None or sig == run.want_sig:
            return (sig, f[1])
    return None
