"""C14 - fixed-width integers implement arithmetic modulo 2^n.

Oracle: Python unbounded integers, reduced into the expected type's range.
  * a fixed-width result must have the expected type T (wider operand / the fixed operand when
    mixed with a plain int; for equal widths of different signedness only the value mod 2^n is
    judged) and the value red(T, exact);
  * a plain-int result (abs, int ** fixed, int(), hash(), comparisons) must be the exact value;
  * a reflected operator must agree with the direct one on the converted operand;
  * x == y  =>  hash(x) == hash(y).
Domain: shift counts and exponents in 0..256, '%' with non-zero divisor.
"""
import operator
import itertools
from vlib import runner

WIDTHS = [1, 8, 16, 32, 64, 128]
TYPES = ["uint1", "uint8", "uint16", "uint32", "uint64", "uint128",
         "int8", "int16", "int32", "int64", "int128"]

BIN = {
    "+": operator.add, "-": operator.sub, "*": operator.mul, "&": operator.and_,
    "|": operator.or_, "^": operator.xor, "<<": operator.lshift, ">>": operator.rshift,
    "%": operator.mod, "**": operator.pow,
}
CMP = {"==": operator.eq, "!=": operator.ne, "<": operator.lt, "<=": operator.le,
       ">": operator.gt, ">=": operator.ge}
UN = {"~": operator.invert, "neg": operator.neg, "abs": abs, "int": int, "hash": hash}


def M():
    from miasmx.tools import modint
    return modint


def tinfo(name):
    signed = not name.startswith("u")
    size = int(name.lstrip("uint"))
    return signed, size


def red(name, v):
    signed, size = tinfo(name)
    v %= 1 << size
    if signed and v >= 1 << (size - 1):
        v -= 1 << size
    return v


def in_domain(op, yv):
    if op in ("<<", ">>", "**"):
        return 0 <= yv <= 256
    if op == "%":
        return yv != 0
    return True


def expected_type(t1, t2):
    """(type name or None when the statement does not choose, size)"""
    s1, n1 = tinfo(t1)
    s2, n2 = tinfo(t2)
    if n1 > n2:
        return t1, n1
    if n2 > n1:
        return t2, n2
    if t1 == t2:
        return t1, n1
    return None, n1


def judge(res, T, size, exact, allow_plain=False):
    """None or mismatch kind."""
    m = M()
    if isinstance(res, m.moduint):
        if T is not None:
            if type(res).__name__ != T:
                return "type:%s" % type(res).__name__
            if int(res) != red(T, exact):
                return "value"
        else:
            if type(res).size != size:
                return "type:%s" % type(res).__name__
            if (int(res) - exact) % (1 << size) != 0:
                return "value"
            if int(res) != red(type(res).__name__, exact):
                return "range"
        return None
    if allow_plain and isinstance(res, int):
        return None if res == exact else "plainvalue"
    return "type:%s" % type(res).__name__


def oracle(case):
    """case: dict(form, op, t1, x[, t2], y) -> None or (sig, detail)"""
    m = M()
    form, op = case["form"], case["op"]
    t1 = case["t1"]
    X = getattr(m, t1)(case["x"])
    xv = red(t1, case["x"])
    if int(X) != xv:
        return (("construct", t1), "%s(%d) holds %d, expected %d" % (t1, case["x"], int(X), xv))
    try:
        if form == "un":
            f = UN[op]
            r = f(X)
            if op == "~":
                k = judge(r, t1, tinfo(t1)[1], ~xv)
            elif op == "neg":
                k = judge(r, t1, tinfo(t1)[1], -xv)
            elif op == "abs":
                k = judge(r, t1, tinfo(t1)[1], abs(xv), allow_plain=True)
            elif op == "int":
                k = None if (type(r) is int and r == xv) else "plainvalue"
            elif op == "hash":
                k = None if r == hash(getattr(m, t1)(xv)) and (X != xv or r == hash(xv)) else "hash"
            if k:
                return ((op, form, "s" if tinfo(t1)[0] else "u", k), "%s(%s(%d)) -> %r" % (op, t1, xv, r))
            return None
        if form == "ff":
            t2 = case["t2"]
            Y = getattr(m, t2)(case["y"])
            yv = red(t2, case["y"])
            if not in_domain(op, yv):
                return None
            sg = ("s" if tinfo(t1)[0] else "u") + ("s" if tinfo(t2)[0] else "u")
            wd = "eq" if tinfo(t1)[1] == tinfo(t2)[1] else ("gt" if tinfo(t1)[1] > tinfo(t2)[1] else "lt")
            if op in CMP:
                r = CMP[op](X, Y)
                e = CMP[op](xv, yv)
                if r is not e and r != e:
                    return ((op, form, sg, wd, "cmp"), "%s(%d) %s %s(%d) -> %r, expected %r" % (t1, xv, op, t2, yv, r, e))
                if op == "==" and r and hash(X) != hash(Y):
                    return (("hash", form, sg, wd, "eqhash"), "%s(%d) == %s(%d) but hashes differ" % (t1, xv, t2, yv))
                return None
            r = BIN[op](X, Y)
            exact = BIN[op](xv, yv)
            T, size = expected_type(t1, t2)
            if op == "**":
                T, size = t1, tinfo(t1)[1]    # x ** y keeps x's type (the exponent is a count)
            k = judge(r, T, size, exact)
            if k:
                return ((op, form, sg, wd, k), "%s(%d) %s %s(%d) -> %r, exact %d, expected type %s" % (t1, xv, op, t2, yv, r, exact, T))
            return None
        # fixed (op) int   /   int (op) fixed
        yv = case["y"]
        sg = "s" if tinfo(t1)[0] else "u"
        size = tinfo(t1)[1]
        if form == "fi":
            if not in_domain(op, yv):
                return None
            if op in CMP:
                r = CMP[op](X, yv)
                e = CMP[op](xv, yv)
                if r is not e and r != e:
                    return ((op, form, sg, "cmp"), "%s(%d) %s %d -> %r, expected %r" % (t1, xv, op, yv, r, e))
                if op == "==" and r and hash(X) != hash(yv):
                    return (("hash", form, sg, "eqhash"), "%s(%d) == %d but hashes differ" % (t1, xv, yv))
                return None
            r = BIN[op](X, yv)
            exact = BIN[op](xv, yv)
            k = judge(r, t1, size, exact)
            if k:
                return ((op, form, sg, k), "%s(%d) %s %d -> %r, exact %d" % (t1, xv, op, yv, r, exact))
            return None
        if form == "if":
            if not in_domain(op, xv):
                return None
            if op in CMP:
                r = CMP[op](yv, X)
                e = CMP[op](yv, xv)
                if r is not e and r != e:
                    return ((op, form, sg, "cmp"), "%d %s %s(%d) -> %r, expected %r" % (yv, op, t1, xv, r, e))
                return None
            r = BIN[op](yv, X)
            exact = BIN[op](yv, xv)
            k = judge(r, t1, size, exact, allow_plain=(op == "**"))
            if k:
                return ((op, form, sg, k), "%d %s %s(%d) -> %r, exact %d" % (yv, op, t1, xv, r, exact))
            # reflected agrees with direct on the converted operand (when the result is fixed-width)
            if isinstance(r, m.moduint):
                Yc = getattr(m, t1)(yv)
                if in_domain(op, xv):
                    d = BIN[op](Yc, X)
                    # direct form reads the converted left operand: compare modulo 2^n for ops where
                    # reduction of the left operand commutes with the operation
                    if op in ("+", "-", "*", "&", "|", "^", "<<") and int(d) != int(r):
                        return ((op, form, sg, "reflected"), "%d %s %s(%d) -> %r but %s(%d) %s x -> %r" % (yv, op, t1, xv, r, t1, yv, op, d))
            return None
    except Exception as e:   # an operation in the domain must not raise
        return ((op, form, "exception", type(e).__name__), "%r on %r" % (e, case))
    raise runner.Inconclusive("bad case %r" % (case,))


def nontrivial(case):
    """the exact result leaves the operand type's range, or two different types are mixed"""
    form, op = case["form"], case["op"]
    if form == "ff" and case["t1"] != case["t2"]:
        return True
    if op in CMP or form == "un":
        return form == "un" and op in ("~", "neg")
    t1 = case["t1"]
    xv = red(t1, case["x"])
    yv = case["y"] if form != "ff" else red(case["t2"], case["y"])
    a, b = (xv, yv) if form != "if" else (yv, xv)
    if not in_domain(op, b):
        return False
    ex = BIN[op](a, b)
    return red(t1, ex) != ex


def boundary(name):
    s, n = tinfo(name)
    vals = set([0, 1, (1 << (n - 1)) - 1, 1 << (n - 1), (1 << n) - 1])
    return sorted(set(red(name, v) for v in vals))


def plain_ints(n):
    b = [0, 1, 2, 3, -1, -2, (1 << (n - 1)) - 1, 1 << (n - 1), (1 << n) - 1, 1 << n, (1 << n) + 1,
         -(1 << (n - 1)), -(1 << (n - 1)) - 1, -(1 << n), 7, 8, n - 1, n, n + 1, 255, 256]
    return sorted(set(b))


ALLBIN = list(BIN) + list(CMP)


def w_exhaustive(run, st, k, item):
    t, op = item
    for x in range(256):
        for y in range(256):
            case = {"form": "ff", "op": op, "t1": t, "t2": t, "x": x, "y": y}
            st.ev()
            r = oracle(case)
            if nontrivial(case):
                st.nt((t, op, x, y))
                st.sample(case)
            if r is not None:
                sig = runner.norm_sig(r[0])
                if not any(f[0] == sig for f in st.failures):
                    st.fail(sig, r[1], case)
                else:
                    st.klass("further_failures_same_signature")


def w_boundary(run, st, k, item):
    for case in item:
        st.ev()
        st.klass("form_" + case["form"])
        r = oracle(case)
        if nontrivial(case):
            st.nt(tuple(sorted(case.items())))
            st.sample(case)
        if r is not None:
            sig = runner.norm_sig(r[0])
            if not any(f[0] == sig for f in st.failures):
                st.fail(sig, r[1], case)


def boundary_cases():
    out = []
    for t1 in TYPES:
        n1 = tinfo(t1)[1]
        for x in boundary(t1):
            for op in UN:
                out.append({"form": "un", "op": op, "t1": t1, "x": x})
            for t2 in TYPES:
                for y in boundary(t2) + [2, 7, 8]:
                    for op in ALLBIN:
                        out.append({"form": "ff", "op": op, "t1": t1, "t2": t2, "x": x, "y": y})
            for y in plain_ints(n1):
                for op in ALLBIN:
                    out.append({"form": "fi", "op": op, "t1": t1, "x": x, "y": y})
                    out.append({"form": "if", "op": op, "t1": t1, "x": x, "y": y})
    return out


def strategy():
    from hypothesis import strategies as s

    def val(t):
        sg, n = tinfo(t)
        return s.one_of(s.integers(-(1 << n), (1 << (n + 1))), s.sampled_from(boundary(t)), s.integers(0, 300))

    @s.composite
    def case(draw):
        form = draw(s.sampled_from(["ff", "ff", "fi", "if", "un"]))
        t1 = draw(s.sampled_from(TYPES))
        x = draw(val(t1))
        if form == "un":
            return {"form": form, "op": draw(s.sampled_from(sorted(UN))), "t1": t1, "x": x}
        op = draw(s.sampled_from(ALLBIN))
        if form == "ff":
            t2 = draw(s.sampled_from(TYPES))
            return {"form": form, "op": op, "t1": t1, "t2": t2, "x": x, "y": draw(val(t2))}
        return {"form": form, "op": op, "t1": t1, "x": x, "y": draw(val(t1))}
    return case()


def w_random(run, st, k, item):
    def orc(case):
        if nontrivial(case):
            st.nt(tuple(sorted(case.items())))
            st.sample(case)
        st.klass("random_" + case["form"])
        return oracle(case)
    runner.hyp_drive(run, st, strategy(), orc, item, run.seed * 1000 + k)


def main(run):
    run.rule = ("exhaustive: all 2^16 operand pairs for uint8xuint8 and int8xint8 under every binary/comparison operator; "
                "boundary: {0,1,2^(n-1)-1,2^(n-1),2^n-1} for all 11 types, every ordered type pair, plain ints around every width boundary, "
                "direct and reflected; random: Hypothesis over (form, types, values, operator). non-trivial = two different types are mixed, "
                "or the exact result leaves the operand type's range (reduction matters), or ~/neg; distinct = (operator, types, values)")
    run.assumptions = ["Python's unbounded integers are the reference arithmetic",
                       "shift counts/exponents limited to 0..256; '%' with a zero divisor is outside the domain",
                       "'%' follows Python's floor convention on the operands' integer values (the same exact operation the statement reduces)"]
    ex_items = [(t, op) for t in ("uint8", "int8") for op in ALLBIN]
    runner.pmap(run, w_exhaustive, ex_items)
    run.klass("exhaustive_8bit_pairs", 65536 * len(ex_items))
    bc = boundary_cases()
    runner.pmap(run, w_boundary, runner.chunks(bc, 32))
    n = run.pick(2000, 40000)
    runner.pmap(run, w_random, [n] * 16)
    run.exhaustive = True
    run.extra["exhaustive_part"] = "8-bit x 8-bit operand pairs, and the boundary grid, are enumerated completely; wider values are sampled"


def replay(run, case):
    return oracle(case)
