"""C02 - every assembler candidate encodes exactly the requested instruction.

Lines are rendered (Intel and AT&T) from generated structured specs (vlib/asmgen.py).  For every candidate c returned by
asm()/asm_att(): objdump (LLVM as arbiter) must read c as ONE instruction of length len(c) whose normal form matches the spec:
mnemonic, operand kinds and order, registers, memory operand (size keyword, effective segment, base/index/scale,
displacement mod 2^32) and immediates *as integers*: a decoded bit pattern p matches a requested value v under operand width w
iff -2^(w-1) <= v < 2^w and p == v (mod 2^w).  A value outside that range must yield no candidate for that width.
"""
import sys
from hypothesis import strategies as st
from vlib import runner, refs, nf, asmgen

IMM_W = {"i8": 8, "i16": 16, "i32": 32, "ib": 8, "iu8": 8, "iu16": 16, "one": 8}


def collect(strategy, n, seed):
    from hypothesis import given, settings, HealthCheck, seed as hseed, Phase
    out = []

    @hseed(seed)
    @settings(max_examples=n, deadline=None, database=None, phases=[Phase.generate], suppress_health_check=list(HealthCheck))
    @given(strategy)
    def f(x):
        out.append(x)
    f()
    return out


def call_asm(att, line):
    from miasmx.arch.ia32_arch import x86mnemo
    try:
        r = x86mnemo.asm_att(line) if att else x86mnemo.asm(line)
    except ValueError:
        return "rejected"
    except Exception:
        return "crash"
    if not isinstance(r, list):
        return "rejected"
    return [bytes(x) for x in r if isinstance(x, (bytes, bytearray))]


def shape_str(sp):
    return ",".join(sp["shape"])


def judge_candidate(sp, att, c, ref, addr):
    """-> None | ('fail', field, detail) | 'need_arbiter' is handled by the caller through ref2"""
    exp_mn, exp_ops = asmgen.expected(sp)
    if ref is None:
        return ("no-reference-line", "")
    n = nf.parse(ref[1], addr, ref[0])
    if n is None:
        return ("not-an-instruction", "reference reads %s as %r" % (c.hex(), ref[1]))
    if ref[0] != len(c):
        return ("candidate-length", "candidate %s has %d bytes but the reference instruction is %d bytes long (%s)" % (c.hex(), len(c), ref[0], ref[1]))
    if exp_mn == "xchg" and n.mn == "nop" and all(o == ("reg", "eax") for o in exp_ops):
        return None           # 90 is both nop and xchg eax, eax
    if n.mn != exp_mn and not (exp_mn in ("lcall", "ljmp")):
        return ("mnemonic", "%s vs requested %s" % (n.mn, exp_mn))
    if n.extra:
        return None           # string instructions: operands folded into the mnemonic
    got = list(n.ops)
    exp = list(exp_ops)
    # an immediate has no size of its own: for push the reference shows the operand size in the mnemonic only
    if exp_mn == "push" and exp and exp[0][0] == "imm":
        raw = ref[1].split()[0]
        if (raw == "pushw") != (sp.get("w") == 16):
            return ("operand-size", "requested a %d-bit push, candidate %s is '%s'" % (sp.get("w") or 32, c.hex(), ref[1]), "push-immediate")
    # implicit operands the reference prints and the line may leave out
    if len(got) == len(exp) + 1 and exp_mn in ("shl", "shr", "sar", "rol", "ror", "rcl", "rcr") and got[-1] == ("imm", 1):
        got = got[:-1]
    if len(got) != len(exp):
        if exp_mn in ("fadd", "fsub", "fmul", "fdiv", "fsubr", "fdivr", "fcom", "fcomp", "fxch", "fucom", "fucomp", "faddp", "fsubp", "fmulp", "fdivp", "fsubrp", "fdivrp",
                      "in", "out", "fnstsw", "imul"):
            return None       # accumulator / st(0) forms are printed with or without the implicit operand
        return ("operand-count", "%d vs %d (%s)" % (len(got), len(exp), ref[1]))
    if exp_mn in nf.SYMMETRIC and len(exp) == 2 and exp[0][0] == "reg" and exp[1][0] == "reg":
        got, exp = sorted(got), sorted(exp)
    elif exp_mn in nf.SYMMETRIC and len(exp) == 2 and got[0][0] != exp[0][0]:
        got = [got[1], got[0]]
    for i, (g, e, cls) in enumerate(zip(got, exp, sp["shape"] if len(sp["shape"]) == len(exp) else [None] * len(exp))):
        if e[0] == "imm":
            w = IMM_W.get(cls, sp.get("w") or 32)
            if cls in ("i8", "i16", "i32"):
                w = int(cls[1:])
            if g[0] != "imm":
                return ("operand%d-kind" % i, "%s vs imm" % g[0])
            v, p = e[1], g[1]
            if not (-(1 << (w - 1)) <= v < (1 << w)):
                return ("immediate-out-of-range-accepted", "requested %d does not fit %d bits, candidate %s encodes %s" % (v, w, c.hex(), ref[1]), str(cls))
            if (p - v) & ((1 << w) - 1):
                return ("immediate-value", "requested %d, candidate %s encodes 0x%x (%s)" % (v, c.hex(), p & 0xFFFFFFFF, ref[1]), str(cls))
            continue
        if e[0] == "rel":
            if g[0] != "rel":
                return ("operand%d-kind" % i, "%s vs rel" % g[0])
            if (g[1] - e[1]) & 0xFFFFFFFF:
                return ("branch-displacement", "requested %d, candidate %s has displacement 0x%x" % (nf_s32(e[1]), c.hex(), g[1]))
            continue
        if g[0] != e[0]:
            return ("operand%d-kind" % i, "%s vs %s (%s)" % (g[0], e[0], ref[1]))
        if e[0] == "reg" and g[1] != e[1]:
            return ("operand%d-register" % i, "%s vs %s" % (g[1], e[1]))
        if e[0] == "mem":
            if g[1] and e[1] and g[1] != e[1]:
                return ("operand%d-size" % i, "%d vs %d (%s)" % (g[1], e[1], ref[1]))
            if nf.eff_seg(g) != nf.eff_seg(e) and not (e[2] is None):
                return ("segment", "effective segment %s, requested %s (%s)" % (nf.eff_seg(g), nf.eff_seg(e), ref[1]), "%s->%s" % (nf.eff_seg(e), nf.eff_seg(g)))
            if e[2] is None and g[2] not in (None, "ds", "ss"):
                return ("segment", "%s override, none requested" % g[2], "none->%s" % g[2])
            if nf.plain_regs(g[3]) != nf.plain_regs(e[3]):
                return ("operand%d-base/index/scale" % i, "%s vs %s (%s)" % (sorted(g[3]), sorted(e[3]), ref[1]))
            if (g[4] - e[4]) & 0xFFFFFFFF:
                return ("operand%d-displacement" % i, "0x%x vs 0x%x" % (g[4] & 0xFFFFFFFF, e[4] & 0xFFFFFFFF))
    return None


def mn_class(mn):
    """the MMX/SSE rows share one table scheme ('#' rows): one class for the signature"""
    from miasmx.arch.ia32_arch import mnemo_mmx_hash, mnemo_mmx
    if mn in mnemo_mmx_hash or mn in mnemo_mmx:
        return "mmx/sse"
    return mn


def nf_s32(v):
    v &= 0xFFFFFFFF
    return v - (1 << 32) if v >> 31 else v


def process(run, st_, specs):
    """specs -> failures; one objdump run for all candidates"""
    cands = []
    for n_sp, sp in enumerate(specs):
        for att in (False, True):
            # every fourth spec writes its decimal numbers with a leading zero where no octal reading exists (0128, 09): the value denoted is the same
            if "_lead0" not in sp:
                sp["_lead0"] = int(n_sp % 4 == 3)      # kept in the spec so that a replay file reproduces the spelling
            asmgen.LEAD0 = bool(sp["_lead0"])
            try:
                line = asmgen.att(sp) if att else asmgen.intel(sp, style=0)
                plain = line
                if asmgen.LEAD0 and line is not None:
                    asmgen.LEAD0 = False
                    plain = asmgen.att(sp) if att else asmgen.intel(sp, style=0)
            finally:
                asmgen.LEAD0 = False
            if line is None:
                continue
            if plain != line:
                st_.klass("lines_with_leading_zero_decimal")
            st_.ev()
            r = call_asm(att, line)
            if r == "rejected":
                st_.exclude("line_rejected")
                continue
            if r == "crash":
                st_.exclude("assembler_raises(C10)")
                continue
            st_.klass("candidates_%s" % (len(r) if len(r) < 8 else "8+"))
            if not r:
                continue
            st_.nt((att, line))
            if len(r) > 1 or any(o[0] == "mem" for o in sp["ops"]):
                st_.sample({"line": line, "syntax": "att" if att else "intel", "candidates": [x.hex() for x in r[:6]]})
            for idx, c in enumerate(r):
                if len(c) > 15 or len(c) == 0:
                    st_.fail(("candidate-size", "att" if att else "intel"), "%r -> candidate of %d bytes" % (line, len(c)), {"spec": sp, "att": int(att)})
                    continue
                cands.append((sp, att, line, idx, c))
    if not cands:
        return
    r1 = refs.objdump([c for _, _, _, _, c in cands], scratch=run.scratch)
    pend = []
    for k, ((sp, att, line, idx, c), ref) in enumerate(zip(cands, r1)):
        v = judge_candidate(sp, att, c, ref, k * refs.SLOT)
        if v is None:
            st_.klass("candidate_ok")
        else:
            pend.append((sp, att, line, idx, c, v))
    if pend:
        r1b = refs.objdump([p[4] for p in pend], scratch=run.scratch)
        r2 = refs.llvm_objdump([p[4] for p in pend], scratch=run.scratch)
        for k, ((sp, att, line, idx, c, v), a, b) in enumerate(zip(pend, r1b, r2)):
            na = nf.parse(a[1], k * refs.SLOT, a[0]) if a else None
            nb = nf.parse(b[1], k * refs.SLOT, b[0]) if b else None
            if v[0] not in ("not-an-instruction", "candidate-length") and (na is None or nb is None or a[0] != b[0] or nf.diff(nb, na, False) is not None):
                st_.exclude("reference_disagreement")
                continue
            if v[0] in ("not-an-instruction", "candidate-length") and b is not None and nb is not None and b[0] == len(c) and (a is None or a[0] != len(c)):
                st_.exclude("reference_disagreement")
                continue
            if len(v) > 2:
                sig = ("asm_att" if att else "asm", v[0], v[2])
            else:
                sig = ("asm_att" if att else "asm", v[0], mn_class(sp["mn"]), shape_str(sp))
            det = "%s %r candidate #%d %s: %s" % ("asm_att" if att else "asm", line, idx, c.hex(), v[1])
            sig = runner.norm_sig(sig)
            if not any(f[0] == sig for f in st_.failures):
                st_.fail(sig, det, {"spec": sp, "att": int(att)})


def w_run(run, st_, k, n):
    specs = collect(asmgen.spec(), n, run.seed * 1000 + k)
    for i in range(0, len(specs), 400):
        process(run, st_, specs[i:i + 400])


# ---- AT&T x87 arithmetic: GNU as is the reference for what the line denotes (the historic fsub/fsubr, fdiv/fdivr reversal of the
# AT&T syntax makes a hand-written expectation error-prone; the assembler that defines the syntax is asked instead)
def x87_att_lines():
    out = []
    for base in ("fadd", "fsub", "fsubr", "fmul", "fdiv", "fdivr"):
        for i in (1, 3, 7):        # not st(0): with both operands st(0) the D8 and DC forms compute the same thing
            out += [(base, "st(i)", "%s %%st(%d)" % (base, i)), (base, "st(i),st", "%s %%st(%d), %%st" % (base, i)), (base, "st,st(i)", "%s %%st, %%st(%d)" % (base, i)),
                    (base + "p", "st(i)", "%sp %%st(%d)" % (base, i)), (base + "p", "st,st(i)", "%sp %%st, %%st(%d)" % (base, i))]
        out.append((base + "p", "none", base + "p"))
    for mn in ("fxch", "fcom", "fcomp", "fucom", "fucomp", "ffree", "fld", "fst", "fstp"):
        for i in (0, 1, 7):
            out.append((mn, "st(i)", "%s %%st(%d)" % (mn, i)))
    return out


def x87_att(run):
    from miasmx.arch.ia32_arch import x86mnemo
    lines = x87_att_lines()
    want = refs.gas([l for _, _, l in lines], syntax="att", scratch=run.scratch)
    cands = []
    for (mn, form, line), g in zip(lines, want):
        run.ev()
        if g is None:
            run.exclude("x87_att_line_rejected_by_gas")
            cands.append(None)
            continue
        try:
            with runner.quiet():
                cs = [bytes(c) for c in x86mnemo.asm_att(line)]
        except ValueError:
            cs = []
        except Exception as e:
            run.note(("att-x87", mn, form, "raises:" + type(e).__name__), "asm_att(%r) raised %s: %s" % (line, type(e).__name__, e), {"x87att": line})
            cands.append(None)
            continue
        cands.append(cs)
        if not cs:
            run.exclude("x87_att_line_not_accepted")
        elif g not in cs:
            run.note(("att-x87", mn, form, "reference-encoding-missing"), "asm_att(%r) = %s but GNU as encodes it as %s" % (line, [c.hex() for c in cs], g.hex()), {"x87att": line})
    # every other candidate must denote the same instruction: GNU as, fed objdump's AT&T text of the candidate, must come back to the reference bytes
    flat = [(k, c) for k, cs in enumerate(cands) if cs for c in cs if c != want[k]]
    texts = refs.objdump([c for _, c in flat], syntax="att", scratch=run.scratch)
    back = refs.gas([(t[1] if t else "") for t in texts], syntax="att", scratch=run.scratch)
    for (k, c), t, b in zip(flat, texts, back):
        mn, form, line = lines[k]
        if b != want[k]:
            run.note(("att-x87", mn, form, "candidate-denotes-another-instruction"), "asm_att(%r) offers %s, which is '%s' (GNU as: %s); the line is %s" % (
                line, c.hex(), t[1] if t else "?", b.hex() if b else None, want[k].hex()), {"x87att": line})
    for k, cs in enumerate(cands):
        if cs and want[k] in cs:
            run.klass("x87_att_line_ok")
            run.nt(("x87att", lines[k][2]))


def main(run):
    refs.need("objdump"); refs.need("llvm-objdump")
    run.rule = ("Hypothesis-generated specs: mnemonic x operand shape from a hand-written family table (%d mnemonic/shape pairs) x registers, memory operands over "
                "base/index/scale/displacement/segment, immediates at every width boundary; rendered in Intel and AT&T syntax; ALL candidates of each accepted line are "
                "decoded by objdump. non-trivial = an accepted line with >= 1 candidate; distinct = (syntax, line)" % len(asmgen.all_pairs()))
    run.assumptions = ["objdump (LLVM as arbiter) defines what a candidate encodes", "the spec is the generator's own data, not a parse of the text",
                       "relative branch operands follow miasmX's convention (the number is the displacement), as in tests/test_encode.py",
                       "lines the assembler rejects (ValueError) are outside the domain; crashes are C10's subject"]
    runner.pmap(run, w_run, [run.pick(1500, 30000)] * 16)
    x87_att(run)


def replay(run, case):
    if "x87att" in case:
        class R(runner.Stats):
            pass
        r = R()
        r.scratch = run.scratch
        notes = []
        r.note = lambda sig, det, c: notes.append((runner.norm_sig(sig), det, c))
        x87_att(r)
        for sig, det, c in notes:
            if c.get("x87att") == case["x87att"] and (run.want_sig is None or sig == run.want_sig):
                return (sig, det)
        return None
    st_ = runner.Stats()
    sp = case["spec"]
    sp["ops"] = [tuple(o) for o in sp["ops"]]
    with runner.quiet():
        process(run, st_, [sp])
    want = run.want_sig
    for sig, det, _ in st_.failures:
        if want is None or sig == want:
            return (sig, det)
    return None
