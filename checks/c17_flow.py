"""C17 - control-flow metadata agrees with the instruction's architectural behaviour.

Domain: every control-transfer form (jcc/jmp/call/loop/jecxz rel8/rel16/rel32 at boundary displacements, indirect
and far forms, ret/retf/iret, int/int3/into, hlt, ud2) plus a stratified sample of all other opcode rows, each
decoded at several stream offsets including ones near 2^32 (through a duck-typed stream exposing offset/readbs).
Oracle: the architectural class is taken from the *reference* mnemonic (objdump, normalised):
   {jmp, ljmp, ret, lret, iret, hlt, ud2}            -> breakflow and not splitflow
   {jcc, loop/loope/loopne, jecxz, call, lcall}      -> breakflow, splitflow and dstflow
   anything else (syscall/sysenter/sysexit/sysret excluded) -> not breakflow
getnextflow() == offset + length; for direct relative forms getdstflow() == [(offset + length + sext(disp)) mod 2^opsize]
with disp read from the last 1/2/4 bytes of the instruction and opsize 16 under an operand-size prefix.
Only strings on which miasmX and the reference agree about the length, and without superfluous prefix, are judged.
"""
from vlib import runner, x86space, refs, nf
from checks.c01_decode import split_prefixes, lock_ok

OFFSETS = [0, 1, 0x1000, 0x7FFFFFFF, 0x80000000, 0xFFFFFFF0, 0xFFFFFFF5, 0xFFFFFFFA, 0xFFFFFFFE, 0xFFFFFFFF]
END = set(["jmp", "ljmp", "ret", "lret", "iret", "hlt", "ud2"])
SPLIT = set(["call", "lcall", "loop", "loope", "loopne", "jecxz"] + ["j" + c for c in set(nf.CC.values())])
EXCLUDED = set(["syscall", "sysenter", "sysexit", "sysret"])


class VStream(object):
    """a window of bytes placed at an arbitrary 32-bit offset"""
    def __init__(self, data, base):
        self.data, self.base, self.offset = bytes(data), base, base

    def readbs(self, l=1):
        a = self.offset - self.base
        if a < 0 or a + l > len(self.data):
            raise IOError
        self.offset += l
        return self.data[a:a + l]


def ref_class(mn):
    if mn in EXCLUDED:
        return None
    if mn in END:
        return "end"
    if mn in SPLIT:
        return "split"
    return "plain"


def disp_info(b, l, mn):
    """(width in bytes, value) of the displacement of a direct relative form, from the raw bytes"""
    pfx, rest = split_prefixes(b[:l])
    if not rest:
        return None
    op = rest[0]
    o16 = 0x66 in pfx
    if 0x70 <= op <= 0x7f or op in (0xe0, 0xe1, 0xe2, 0xe3, 0xeb):
        w = 1
    elif op in (0xe8, 0xe9) or (op == 0x0f and len(rest) > 1 and 0x80 <= rest[1] <= 0x8f):
        w = 2 if o16 else 4
    else:
        return None
    raw = b[l - w:l]
    v = int.from_bytes(raw, "little", signed=True)
    return w, v


def judge(b, off, ref):
    """ref: (length, text) from objdump for the same bytes -> 'ok' | 'excluded:..' | ('fail', sig, detail)"""
    from miasmx.arch.ia32_arch import x86mnemo
    n1 = nf.parse(ref[1], 0, ref[0]) if ref else None
    if n1 is None:
        return "excluded:reference_rejects"
    # a prefix without effect puts a string outside the C01 space - except in front of a direct relative branch, whose length
    # and target the architecture defines whatever hint / segment / repeated size prefix precedes it
    sup = nf.superfluous(n1) or nf.repeated_prefix(b)
    if not lock_ok(b):
        return "excluded:superfluous_prefix"
    try:
        i = x86mnemo.dis(VStream(b, off))
    except Exception:
        return "excluded:decoder_raises(C10)"
    if i is None:
        return "excluded:miasmx_rejects"
    if i.l != ref[0]:
        if n1.mn in SPLIT | END and disp_info(b, ref[0], n1.mn) is not None and n1.ops and n1.ops[0][0] == "rel":
            # a direct relative branch: its length is architectural (prefixes + opcode + displacement of the operand size), so a wrong length is a
            # wrong fall-through address and a wrong target, whatever C01 says about the same bytes
            pf = split_prefixes(b)[0]
            return ("fail", ("branch-length", "rel%d" % (8 * disp_info(b, ref[0], n1.mn)[0]), "o16" if 0x66 in pf else "o32", "a16" if 0x67 in pf else "a32"),
                    "%s (%s) at 0x%x: decoded with length %d, the instruction has %d bytes: fall-through 0x%x instead of 0x%x" % (
                        b[:ref[0]].hex(), ref[1], off, i.l, ref[0], (off + i.l) & 0xFFFFFFFF, (off + ref[0]) & 0xFFFFFFFF))
        return "excluded:length_disagreement(C01)"
    mn = n1.mn
    if sup and disp_info(b, i.l, mn) is None:
        return "excluded:superfluous_prefix"
    try:
        nxt = i.getnextflow()
        bk, sp, dt = bool(i.breakflow()), bool(i.splitflow()), bool(i.dstflow())
    except Exception as ex:
        return ("fail", ("raise", type(ex).__name__, mn), "%s at 0x%x: %s: %s" % (b[:i.l].hex(), off, type(ex).__name__, ex))
    if int(nxt) != off + i.l:
        return ("fail", ("nextflow", "near_2^32" if off >= 0xFFFFFFF0 else "plain"), "%s at 0x%x: getnextflow() = 0x%x, expected 0x%x" % (b[:i.l].hex(), off, int(nxt), off + i.l))
    if i.offset != off:
        return ("fail", ("offset-field",), "%s decoded at 0x%x records offset 0x%x" % (b[:i.l].hex(), off, i.offset))
    cl = ref_class(mn)
    if cl is None:
        return "excluded:syscall_family"
    if cl == "end" and not (bk and not sp):
        return ("fail", ("class", "block-end", mn), "%s (%s): breakflow=%s splitflow=%s, expected block end without fall-through" % (b[:i.l].hex(), ref[1], bk, sp))
    if cl == "split" and not (bk and sp and dt):
        return ("fail", ("class", "split", mn), "%s (%s): breakflow=%s splitflow=%s dstflow=%s, expected all true" % (b[:i.l].hex(), ref[1], bk, sp, dt))
    if cl == "plain" and bk:
        return ("fail", ("class", "plain", mn), "%s (%s) always continues at the next address but breakflow() is true" % (b[:i.l].hex(), ref[1]))
    di = disp_info(b, i.l, mn)
    if di is not None and cl in ("end", "split") and mn not in ("ret", "lret"):
        w, v = di
        o16 = 0x66 in split_prefixes(b)[0]
        want = (off + i.l + v) & (0xFFFF if o16 else 0xFFFFFFFF)
        try:
            got = i.getdstflow()
            gv = [int(x) for x in got]
        except Exception as ex:
            return ("fail", ("dst-raise", type(ex).__name__, mn), "%s at 0x%x: getdstflow raised %s: %s" % (b[:i.l].hex(), off, type(ex).__name__, ex))
        if gv != [want]:
            return ("fail", ("dst", "rel%d" % (8 * w), "o16" if o16 else "o32", "a16" if 0x67 in split_prefixes(b)[0] else "a32",
                             "wrap" if off + i.l + v >= 1 << 32 or off + i.l + v < 0 else "nowrap"),
                    "%s (%s) at 0x%x: getdstflow() = %s, architectural target 0x%x" % (b[:i.l].hex(), ref[1], off, [hex(x) for x in gv], want))
        return "ok:direct"
    return "ok:" + cl


def flow_view(i):
    if i is None:
        return None
    v = [i.l, int(i.getnextflow()), bool(i.breakflow()), bool(i.splitflow()), bool(i.dstflow())]
    try:
        v.append([int(x) for x in i.getdstflow()] if i.dstflow() else None)
    except Exception:
        v.append("non-numeric")
    return v


def mode_dict_reuse(b):
    """the metadata of a decode must not depend on what the caller's mode dictionary was used for before: decode as 16-bit code, switch the
    same dictionary to 32-bit code, decode again - the result must be that of a fresh {'opmode': u32}, and the dictionary must hold what the
    caller put there"""
    from miasmx.arch.ia32_arch import x86mnemo, u16, u32
    try:
        want = flow_view(x86mnemo.dis(b, {"opmode": u32}))
        mode = {"opmode": u16}
        x86mnemo.dis(b, mode)
        if mode != {"opmode": u16}:
            return ("caller-dictionary-modified", "dis(%s, {'opmode': u16}) left the caller's dictionary as %r" % (b.hex(), dict((k, str(v)) for k, v in mode.items())))
        mode["opmode"] = u32
        got = flow_view(x86mnemo.dis(b, mode))
    except Exception as ex:
        return None          # exceptions are C10's subject
    if got != want:
        return ("result-depends-on-earlier-use", "%s decoded with a mode dictionary used before for 16-bit code gives [l, next, break, split, dst, targets] = %s, with a fresh dictionary %s" % (b.hex(), got, want))
    return None


def worker(run, st, k, chunk):
    r1 = refs.objdump(chunk, scratch=run.scratch)
    for b in chunk:
        st.ev()
        v = mode_dict_reuse(b)
        if v is None:
            st.klass("mode_dictionary_reuse_ok")
        else:
            sig = runner.norm_sig(("mode-dictionary", v[0]))
            if not any(f[0] == sig for f in st.failures):
                st.fail(sig, v[1], {"bytes": b.hex(), "offset": 0, "mode_dict": 1})
    for b, ref in zip(chunk, r1):
        for off in OFFSETS if (ref and nf.parse(ref[1], 0, ref[0]) and ref_class(nf.parse(ref[1], 0, ref[0]).mn) != "plain") else OFFSETS[:2]:
            st.ev()
            v = judge(b, off, ref)
            if isinstance(v, tuple):
                sig = runner.norm_sig(v[1])
                if not any(f[0] == sig for f in st.failures):
                    st.fail(sig, v[2], {"bytes": b.hex(), "offset": off})
                st.klass("disagree")
            elif v.startswith("excluded"):
                st.exclude(v.split(":", 1)[1])
            else:
                st.klass(v)
                if v != "ok:plain":
                    st.nt((b[:ref[0]].hex(), off))
                    if off in (0, 0xFFFFFFFA):
                        st.sample({"bytes": b[:ref[0]].hex(), "offset": hex(off), "reference": ref[1]})
                elif off == 0:
                    st.nt((b[:ref[0]].hex(),))


def main(run):
    refs.need("objdump")
    run.rule = ("enumeration: all control-transfer forms x boundary displacements x 10 stream offsets (incl. 2^31 and 2^32-16..2^32-1) + a stratified sample of every other "
                "opcode row at 2 offsets. non-trivial = a judged control-transfer instance (distinct bytes x offset) or a judged plain instruction (distinct bytes)")
    run.assumptions = ["the architectural class is derived from objdump's mnemonic by the table in the property statement",
                       "strings with a superfluous prefix (incl. data16 before rel8 branches) or with a C01 length disagreement are not judged",
                       "syscall/sysenter/sysexit/sysret are excluded as the statement says"]
    cs = set(x86space.control_flow_cases())
    cs |= set(x86space.cases("quick", run.seed, thin=1))
    cs |= set(x86space.x87_cases()[::3])
    cs = sorted(cs)
    runner.pmap(run, worker, runner.chunks(cs, 64))
    run.extra["windows"] = len(cs)


def replay(run, case):
    b = bytes.fromhex(case["bytes"])
    if case.get("mode_dict"):
        v = mode_dict_reuse(b)
        return None if v is None else (("mode-dictionary", v[0]), v[1])
    ref = refs.objdump([b], scratch=run.scratch)[0]
    v = judge(b, case["offset"], ref)
    if isinstance(v, tuple):
        return (v[1], v[2])
    return None
