"""C13 - simplifier output is canonical: idempotent, order-insensitive, hash-seed independent.

(1) idempotence     r = expr_simp(e); expr_simp(fresh copy of r) == r with equal text
(2) order           two arrangements (permutation + re-association) of the same operand multiset of a
                    commutative-associative operator simplify to == expressions with equal text
(3) hash seeds      one corpus (expressions, decoded instructions with both renderings and their lifted
                    semantics, state dumps of small emulated sequences) is processed in child processes
                    under PYTHONHASHSEED in {0,1,2,3,4,17,12345,random}; the per-item outputs must be identical
"""
import os
import sys
import json
import subprocess
from hypothesis import strategies as st
from vlib import runner, exprgen, x86space
from vlib.exprgen import build, sshow, to_script, swidth

HERE = os.path.dirname(os.path.dirname(os.path.abspath(__file__)))


def simp(s):
    from miasmx.expression.expression_helper import expr_simp
    return expr_simp(build(s))


def kinds_of(s):
    if s[0] == "op":
        return "op:" + s[1]
    return s[0]


def idem_oracle(s):
    try:
        r = simp(s)
        rs = to_script(r)
        r2 = simp(rs)
    except Exception as ex:
        return None       # exceptions of the simplifier are C05's business
    if not (r2 == r) or str(r2) != str(r):
        # which node kind is not stable: the smallest sub-expression of r that changes when simplified again
        m = minimal_unstable(rs)
        return (("idempotence", shape(m)), "expr_simp(%s) = %s, simplified again = %s" % (sshow(s), r, r2))
    return None


def minimal_unstable(rs):
    from checks.c05_simp import children
    changed = True
    while changed:
        changed = False
        for pos, c in children(rs):
            if c[0] in ("int", "id"):
                continue
            try:
                a = build(c)
                b = simp(c)
            except Exception:
                continue
            if not (a == b) or str(a) != str(b):
                rs = c
                changed = True
                break
    return rs


def shape(s):
    from checks.c05_simp import shape as sh
    t = sh(s)
    return t if len(t) < 80 else t[:80] + "..."


@st.composite
def arrangements(draw):
    w = draw(st.sampled_from([8, 16, 32, 64, 1]))
    op = draw(st.sampled_from(exprgen.ASSOC))
    n = draw(st.integers(2, 5))
    ops = [draw(exprgen.expr(w, 2)) for _ in range(n)]
    mode = draw(st.sampled_from(["random", "random", "interacting", "flattening", "repeats", "twins"])) if w >= 8 else "random"
    if mode == "twins" and w > 16:
        w = draw(st.sampled_from([8, 16]))
    if mode == "interacting":
        # operands that rewrite rules combine pairwise (a shift and the mask that covers exactly what it leaves, a term and its negation,
        # neutral and absorbing constants): a rule that looks at two operands must not depend on how the list was parenthesised
        X, Y = ["id", "x%d" % w, w], ["id", "y%d" % w, w]
        c = draw(st.sampled_from([1, 4, w // 2, w - 8 if w > 8 else 3, w - 1]))
        full = (1 << w) - 1
        pool = [X, Y, ["op", ">>", [X, ["int", w, c]]], ["op", "<<", [X, ["int", w, c]]], ["int", w, full >> c], ["int", w, (full << c) & full], ["int", w, (1 << c) - 1],
                ["int", w, 0], ["int", w, full], ["op", "-", [X]], ["op", "^", [X, Y]], ["op", ">>", [Y, ["int", w, c]]], ["int", w, 1], ["op", "&", [X, ["int", w, full >> c]]]]
        ops = [draw(st.sampled_from(pool)) for _ in range(draw(st.integers(3, 4)))]
    elif mode == "twins":
        # operands that differ in ONE field while every surrounding width agrees - the width of a cell below a non-zero-based slice or used
        # as a condition, its segment, the offset of a slice, the operator of an inner node: a canonical order whose key leaves that field
        # out lets the two tie and keeps the order they were written in (seed C13-r9-1: key_expr without the width of a cell)
        P = draw(st.sampled_from([["id", "p32", 32], ["op", "+", [["id", "p32", 32], ["int", 32, 8]]]]))
        A, B = ["id", "a%d" % w, w], ["id", "b%d" % w, w]
        o = draw(st.sampled_from([8, 16] if w == 16 else [8]))
        wide = [W for W in (16, 32, 64) if W >= o + w]
        seg = draw(st.sampled_from([["id", "ds", 16], ["id", "es", 16]]))
        fam = draw(st.sampled_from(["width-under-slice", "width-of-condition", "segment", "slice-offset", "inner-operator", "width-in-address"]))
        if fam == "width-under-slice":
            pool = [["slice", ["mem", P, W, None], o, o + w] for W in wide]
        elif fam == "width-of-condition":
            pool = [["cond", ["mem", P, W, None], A, B] for W in (8, 16, 32)]
        elif fam == "segment":
            pool = [["mem", P, w, None], ["mem", P, w, seg], ["mem", P, w, ["int", 16, 0]]]
        elif fam == "slice-offset":
            pool = [["slice", ["id", "x64", 64], k, k + w] for k in (8, 16, 24)]
        elif fam == "inner-operator":
            pool = [["op", o_, [A, ["int", w, 3]]] for o_ in (">>", "a>>", "<<")]
        else:
            pool = [["mem", ["op", "+", [P, ["compose", [[["slice", ["mem", P, W, None], 8, 16], 0, 8], [["int", 24, 0], 8, 32]]]]], w, None] for W in (16, 32, 64)]
        ops = list(draw(st.permutations(pool)))[:draw(st.integers(2, 3))]
        if draw(st.booleans()):
            ops.append(draw(st.sampled_from([A, B, ["int", w, 1]])))
    elif mode == "repeats":
        # a multiset with repeated terms, their inverses and small multiples: rules that combine equal operands (A+A, A^A, A+(-A), A*k+A)
        # see other partners under other bracketings (seed C13-r8-2: (a+a)+(-a) vs a+(a+(-a)))
        X, Y = ["id", "x%d" % w, w], ["id", "y%d" % w, w]
        k = draw(st.sampled_from([2, 3, (1 << w) - 1]))
        pool = [X, X, X, ["op", "-", [X]], Y, Y, ["op", "-", [Y]], ["op", "*", [X, ["int", w, k]]], ["int", w, 1], ["op", "+", [X, Y]], ["op", "^", [X, Y]]]
        ops = [draw(st.sampled_from(pool)) for _ in range(draw(st.integers(3, 5)))]
    elif mode == "flattening":
        # two operands that differ only in where a nested variadic node ends: f(g(p, q), r, t) and f(g(p, q, r), t)
        f, g = draw(st.sampled_from([(a, b) for a in exprgen.ASSOC for b in exprgen.ASSOC if a != b]))
        p_, q_, r_, t_ = [draw(st.sampled_from([["id", "%s%d" % (nm, w), w] for nm in "abcd"] + [["op", "^" if g != "^" else "+", [["id", "e%d" % w, w], ["id", "f%d" % w, w]]], ["int", w, 0xFF & ((1 << w) - 1)]]))
                          for _ in range(4)]
        ops = [["op", f, [["op", g, [p_, q_]], r_, t_]], ["op", f, [["op", g, [p_, q_, r_]], t_]]]
        if draw(st.booleans()):
            ops.append(draw(exprgen.expr(w, 1)))
    elif draw(st.booleans()):
        # near-equal operands stress the tie-breaking of the canonical order
        k, m = draw(exprgen.mutate(ops[0]))
        if k is not None:
            ops.append(m)

    def arrange(items):
        items = draw(st.permutations(items))
        # random re-association: fold some adjacent runs into nested nodes of the same operator
        while len(items) > 2 and draw(st.booleans()):
            i = draw(st.integers(0, len(items) - 2))
            j = draw(st.integers(i + 2, len(items)))
            items = items[:i] + [["op", op, items[i:j]]] + items[j:]
        if len(items) == 1:
            return items[0]
        return ["op", op, list(items)]
    a, b = arrange(ops), arrange(ops)
    # the same two arrangements below another node: the order must not depend on where the operator sits (an address under a
    # slice of a memory read, a branch of a conditional, a part of a concatenation)
    ctx = draw(st.sampled_from(["top", "top", "top", "address-under-slice", "address", "cond-branch", "compose-part", "slice", "assignment-destination-address", "assignment-source"])) if w == 32 else "top"
    wrap = {"top": lambda x: x,
            "address-under-slice": lambda x: ["slice", ["mem", x, 32, None], 8, 16],
            "address": lambda x: ["op", "+", [["mem", x, 32, None], ["int", 32, 1]]],
            "cond-branch": lambda x: ["cond", ["id", "p1", 1], x, ["id", "q32", 32]],
            "compose-part": lambda x: ["compose", [[["slice", x, 0, 16], 0, 16], [["id", "h16", 16], 16, 32]]],
            "slice": lambda x: ["slice", x, 8, 24],
            "assignment-destination-address": lambda x: ["aff", ["mem", x, 32, None], ["id", "q32", 32]],
            "assignment-source": lambda x: ["aff", ["id", "q32", 32], x]}[ctx]
    return {"op": op, "a": wrap(a), "b": wrap(b), "operands": ops, "ctx": ctx}


def tie_class(ops):
    """for the signature: what distinguishes two operands that the canonical order may confuse"""
    ks = sorted(set(kinds_of(o) for o in ops))
    return "+".join(ks)[:60]


def order_oracle(case):
    try:
        ra, rb = simp(case["a"]), simp(case["b"])
    except Exception:
        return None
    if not (ra == rb) or str(ra) != str(rb):
        pair = differing_pair(case)
        if pair == "multi" and case.get("ctx", "top") != "top":
            pair = "only-below:" + case["ctx"]
        return (("order", case["op"], pair), "%s -> %s   but   %s -> %s" % (sshow(case["a"]), ra, sshow(case["b"]), rb))
    return None


def differing_pair(case):
    """reduce to two operands whose order matters, and name what separates them"""
    from miasmx.expression import expression as ex_
    ops = case["operands"]
    op = case["op"]
    for i in range(len(ops)):
        for j in range(i + 1, len(ops)):
            try:
                x, y = simp(["op", op, [ops[i], ops[j]]]), simp(["op", op, [ops[j], ops[i]]])
            except Exception:
                continue
            if not (x == y) or str(x) != str(y):
                a, b = ops[i], ops[j]
                if a[0] == b[0] == "mem" and a[:3] == b[:3]:
                    return "mem_differing_in_segment"
                return "%s/%s" % tuple(sorted([kinds_of(a), kinds_of(b)]))
    return "multi"



def chain(x, n, variant):
    """a spine of n levels above the leaf x that no rewrite rule collapses; two chains over different leaves are equal down to depth n"""
    for i in range(n):
        v = (variant + i) % 4 if variant >= 4 else variant
        if v == 0:
            x = ["op", "^", [["op", "+", [x, ["int", 32, 1]]], ["int", 32, 0x55]]]
        elif v == 1:
            x = ["mem", ["op", "+", [x, ["int", 32, 4]]], 32, None]
        elif v == 2:
            x = ["cond", ["id", "p1", 1], x, ["id", "q32", 32]]
        else:
            x = ["compose", [[["slice", x, 8, 24], 0, 16], [["id", "h16", 16], 16, 32]]]
    return x


def deep_twins():
    """operand pairs that differ only in a leaf far below the operator: the canonical order has to look all the way down (a key that is cut at
    some depth, or replaced by a hash there, orders them by accident - seed C13-r8-3)"""
    out = []
    for n in (1, 2, 3, 4, 6, 9, 13):
        for variant in (0, 1, 2, 3, 4, 5):
            for na, nb in (("a", "b"), ("src", "dst"), ("eax", "ebx"), ("zf_1", "loc_8")):
                x, y = chain(["id", na, 32], n, variant), chain(["id", nb, 32], n, variant)
                for op in ("&", "|", "+", "^", "*"):
                    out.append({"op": op, "a": ["op", op, [x, y]], "b": ["op", op, [y, x]], "operands": [x, y], "ctx": "top", "depth": n})
    return out


def w_twins(run, st_, k, cases):
    for case in cases:
        st_.ev()
        st_.klass("order_deep_twins_depth_%d" % case["depth"])
        r = order_oracle(case)
        if r is None:
            st_.nt(("t", case["depth"], sshow(case["a"])[:200]))
        else:
            st_.fail(r[0], r[1], {"order": case})


# ---- hash-seed matrix -------------------------------------------------------------
STORES = ["8946%02x", "894e%02x", "8957%02x", "895f%02x"]       # mov [esi|esi|edi|edi + d8], eax|ecx|edx|ebx


def emul_corpus(n, seed):
    import hashlib
    out = []
    alu = ["01c8", "29d3", "31f6", "83c004", "f7d9", "40", "0fafc1", "c1e003", "8d440801", "50", "59"]
    for i in range(n):
        h = hashlib.blake2b(repr(("emul", seed, i)).encode(), digest_size=16).digest()
        seq = []
        used = set()
        for k in range(2 + h[0] % 3):
            base = h[1 + k] % 2          # esi / edi
            off = (h[5 + k] % 6) * 4
            if (base, off) in used:
                continue
            used.add((base, off))
            seq.append((STORES[base * 2 + (h[9 + k] % 2)]) % off)
            seq.append(alu[h[12 + k] % len(alu)])
        out.append({"t": "emul", "b": seq})
    return out


def run_children(items, seeds, scratch, timeout=1800):
    itf = os.path.join(scratch, "items.json")
    json.dump(items, open(itf, "w"))
    procs = []
    for sd in seeds:
        d = os.path.join(scratch, "hs-%s" % sd)
        os.makedirs(d, exist_ok=True)
        env = dict(os.environ)
        env["PYTHONHASHSEED"] = str(sd)
        env["TMPDIR"] = d
        env["PYTHONPATH"] = "%s:%s" % (os.environ.get("VERIF_REPO", "/repo"), HERE) + ":" + os.path.join(HERE, ".deps")
        outf = os.path.join(d, "out.json")
        p = subprocess.Popen([sys.executable, "-m", "vlib.child_items", itf, outf], env=env, cwd=HERE,
                             stdout=subprocess.DEVNULL, stderr=subprocess.PIPE)
        procs.append((sd, p, outf))
    res = {}
    for sd, p, outf in procs:
        try:
            _, err = p.communicate(timeout=timeout)
        except subprocess.TimeoutExpired:
            p.kill()
            raise runner.Inconclusive("child with PYTHONHASHSEED=%s did not finish" % sd)
        if p.returncode != 0 or not os.path.exists(outf):
            raise runner.Inconclusive("child with PYTHONHASHSEED=%s failed: %s" % (sd, err.decode(errors="replace")[-400:]))
        res[sd] = json.load(open(outf))
    return res


def item_kind(it, a, b):
    t = it["t"]
    if t == "emul":
        ia = a.index("--") if "--" in a else len(a)
        if a[:ia] != b[:ia] and sorted(a[:ia]) == sorted(b[:ia]):
            return "dump_id_order"
        if a[ia:] != b[ia:] and sorted(a[ia:]) == sorted(b[ia:]):
            return "dump_mem_order"
        return "emul_content"
    if t == "text":
        return "render-of-parsed-line"
    if t == "dis":
        if a[:2] != b[:2]:
            return "render"
        return "lift"
    return t


def hash_matrix(run, items, seeds):
    res = run_children(items, seeds, run.scratch)
    ref = res[seeds[0]]
    for sd in seeds[1:]:
        other = res[sd]
        for i, it in enumerate(items):
            if ref[i] != other[i]:
                kind = item_kind(it, ref[i], other[i])
                d = [(x, y) for x, y in zip(ref[i], other[i]) if x != y][:2]
                run.note(("hashseed", kind), "item %s differs between PYTHONHASHSEED=%s and %s: %s" % (json.dumps(it)[:200], seeds[0], sd, d),
                         {"hash": it, "seeds": [seeds[0], sd]})
    return ref


def w_idem(run, st_, k, n):
    def orc(s):
        r = idem_oracle(s)
        st_.klass("idem_w%d" % swidth(s))
        if r is None:
            st_.nt(("i", sshow(s)))
        return r
    runner.hyp_drive(run, st_, exprgen.any_expr(3), orc, n, run.seed * 1000 + k, to_case=lambda s: {"idem": s}, shrink=True)


def w_idem_rules(run, st_, k, n):
    from vlib import rulegen
    from checks.c05_simp import sub_general, kint_general
    strat = rulegen.rules_strategy([1, 8, 16, 32, 64], sub_general, kint_general)

    def orc(x):
        st_.klass("idem_rule_" + x[0])
        r = idem_oracle(x[1])
        if r is None:
            st_.nt(("ir", sshow(x[1])))
        return r
    runner.hyp_drive(run, st_, strat, orc, n, run.seed * 1000 + 300 + k, to_case=lambda x: {"idem": x[1]}, shrink=True)


def w_order(run, st_, k, n):
    def orc(case):
        r = order_oracle(case)
        st_.klass("order_" + case["op"])
        if r is None and len(case["operands"]) >= 3 and len(set(kinds_of(o) for o in case["operands"])) >= 2:
            st_.nt(("o", sshow(case["a"]), sshow(case["b"])))
            st_.sample({"a": sshow(case["a"]), "b": sshow(case["b"])})
        return r
    runner.hyp_drive(run, st_, arrangements(), orc, n, run.seed * 1000 + 600 + k, to_case=lambda c: {"order": c})


def corpus(run):
    from hypothesis import given, settings, HealthCheck, seed, Phase
    items = []
    exprs = []

    @seed(run.seed * 1000 + 900)
    @settings(max_examples=run.pick(600, 6000), deadline=None, database=None, phases=[Phase.generate], suppress_health_check=list(HealthCheck))
    @given(exprgen.any_expr(3))
    def collect(s):
        exprs.append(s)
    collect()
    items += [{"t": "simp", "s": s} for s in exprs]
    # wide n-ary operators over string-hashed identifiers: any use of a set / dict order inside the simplifier shows here
    names = ["arg_0", "var_c", "eax", "ebx", "ecx", "edx", "esi", "edi", "ebp", "esp", "tmp1", "tmp2", "x", "y", "zf_1", "loc_8"]
    for op in ("+", "^", "|", "&", "*"):
        for n in (9, 12, 16):
            ids = [["id", nm, 32] for nm in names[:n]]
            items.append({"t": "simp", "s": ["op", op, ids]})
            items.append({"t": "simp", "s": ["op", op, ids[::-1]]})
            items.append({"t": "simp", "s": ["op", op, [["op", op, ids[:n // 2]], ["op", op, ids[n // 2:]]]]})
    for c in deep_twins():
        if c["op"] in ("&", "+"):
            items.append({"t": "simp", "s": c["a"]})
    cs = x86space.cases("quick", run.seed, thin=run.pick(40, 4)) + x86space.control_flow_cases()[::7] + x86space.x87_cases()[::5]
    items += [{"t": "dis", "b": b.hex()} for b in cs]
    items += emul_corpus(run.pick(60, 600), run.seed)
    # lines whose operand is a sum / difference of several symbols: the rendering must name them in one order in every process
    names = ["toto", "titi", "tutu", "alpha", "beta", ".LC0", ".LC1", "a", "zz", "polys", "Lvartmp91", "x_1", "sym", "foo", "bar", "baz"]
    for i in range(0, len(names) - 2):
        a, b, c = names[i], names[i + 1], names[i + 2]
        for l in ("mov eax, DWORD PTR [%s+%s]" % (a, b), "mov eax, OFFSET FLAT:%s+%s+%s" % (a, b, c), "lea eax, [%s+%s+ecx*4+12]" % (b, a), "mov eax, OFFSET FLAT:%s-%s" % (a, b),
                  "mov eax, DWORD PTR %s[0+eax*8]" % a, "add DWORD PTR [%s+%s+%s+ebx], 1" % (c, a, b), "push OFFSET FLAT:%s+%s" % (c, a)):
            items.append({"t": "text", "l": l})
    return items


def main(run):
    run.rule = ("idempotence and order layers: Hypothesis expressions (random trees and rule templates) / operand multisets of + * ^ & | with two random arrangements "
                "(permutation + re-association, near-equal operands included); hash-seed layer: a fixed corpus run in child processes under 8 PYTHONHASHSEED values. "
                "non-trivial = an arrangement pair with >= 3 operands of >= 2 node kinds, an expression the simplifier accepted, or a corpus item with >= 2 output lines; distinct by text")
    run.assumptions = ["exceptions raised by the simplifier are judged by C05, not here", "hash-seed independence is checked for 8 seeds"]
    runner.pmap(run, w_idem, [run.pick(400, 8000)] * 16)
    runner.pmap(run, w_idem_rules, [run.pick(400, 8000)] * 16)
    runner.pmap(run, w_order, [run.pick(700, 12000)] * 16)
    runner.pmap(run, w_twins, runner.chunks(deep_twins(), 64))
    items = corpus(run)
    seeds = ["0", "1", "2", "3", "4", "17", "12345", "random"]
    ref = hash_matrix(run, items, seeds)
    run.ev(len(items) * len(seeds))
    for it, r in zip(items, ref):
        run.klass("hashseed_item_" + it["t"])
        if len(r) >= 2:
            run.nt(("h", json.dumps(it)))
    run.sample({"hashseed_item": items[len(items) // 2], "output": ref[len(items) // 2][:4]})
    run.extra["hash_seeds"] = seeds
    run.extra["hash_corpus_items"] = len(items)


def replay(run, case):
    if "idem" in case:
        return idem_oracle(case["idem"])
    if "order" in case:
        return order_oracle(case["order"])
    if "hash" in case:
        res = run_children([case["hash"]], case["seeds"], run.scratch)
        a, b = res[case["seeds"][0]][0], res[case["seeds"][1]][0]
        if a != b:
            return (("hashseed", item_kind(case["hash"], a, b)), "outputs differ: %s" % [(x, y) for x, y in zip(a, b) if x != y][:2])
        return None
    raise runner.Inconclusive("bad replay case")
