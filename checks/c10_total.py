"""C10 - decoder and assembler are total: reject cleanly, never crash, loop or over-read.

Decoder (enumeration over the structured byte space + random strings):
  * dis(bytes) returns None or an instruction whose four renderings (Intel / AT&T, plain and 'objdump' variants) are strings;
    no exception of any type escapes;
  * for an accepted b of length l: dis(b[:k]) is None for every k < l (a truncated instruction is absent), dis(b[:l] + junk)
    has the same length and text for three different junk tails, and decoding from a stream positioned at offsets 1..3 of a
    longer buffer gives the same text and length, records instr.offset == off and leaves stream.offset == off + l.
Assembler (Hypothesis): token sequences of up to 8 tokens over the lexical alphabet, and rendered instructions with one token
deleted / duplicated / swapped, for asm and asm_att: the result is a list of byte strings (possibly empty; or the documented
(prefix, []) pair for prefix-only lines) or ValueError - any other exception type is a failure.
A call that exceeds a generous wall-clock watchdog (20 s for a call that normally takes a millisecond) is only *nominated*; it is reported as a hang when it also exceeds a
deterministic bound of 3*10^6 executed lines when re-run alone under sys.settrace, otherwise it is recorded as inconclusive.
"""
import sys
import json
import signal
from hypothesis import strategies as st
from vlib import runner, x86space

FORMATS = ["intel_syntax noprefix", "att_syntax binutils", "intel_syntax objdump", "att_syntax objdump"]
JUNK = [bytes([0x00] * 16), bytes([0xFF] * 16), bytes([0x90, 0x66, 0x0F, 0x38, 0xC3, 0x24, 0x05, 0x8B] * 2)]
LINE_BOUND = 3 * 10 ** 6


MEM_LIMIT = 6 << 30       # bytes of address space for this check's processes (see vlib/main.py)


class Watchdog(Exception):
    pass


def _alarm(sig, frm):
    raise Watchdog()


def innermost(tb):
    """function and source text of the innermost miasmx / ply frame: the text (not the line number) keeps the signature stable when lines move,
    and tells two raising statements of one function apart"""
    import linecache
    fn, txt = "?", ""
    while tb is not None:
        f = tb.tb_frame.f_code
        if "miasmx" in f.co_filename or "/ply/" in f.co_filename:
            fn = f.co_name
            txt = " ".join(linecache.getline(f.co_filename, tb.tb_lineno).split())[:70]
        tb = tb.tb_next
    return fn + " | " + txt


def guarded(entry, f, *a):
    """-> ('ok', value) | ('exc', sig, text) | ('watchdog',)"""
    signal.signal(signal.SIGALRM, _alarm)
    signal.alarm(20)
    try:
        return ("ok", f(*a))
    except Watchdog:
        return ("watchdog",)
    except RecursionError as ex:
        return ("exc", (entry, "RecursionError", "?"), "RecursionError")
    except Exception as ex:
        return ("exc", (entry, type(ex).__name__, innermost(sys.exc_info()[2])), "%s: %s" % (type(ex).__name__, ex))
    finally:
        signal.alarm(0)


def count_lines(f, *a):
    """deterministic re-run of a nominated call: number of executed lines, capped at LINE_BOUND"""
    n = [0]

    class Stop(BaseException):
        pass

    def tr(frame, event, arg):
        if event == "line":
            n[0] += 1
            if n[0] > LINE_BOUND:
                raise Stop()
        return tr
    sys.settrace(tr)
    try:
        f(*a)
    except Stop:
        return LINE_BOUND + 1
    except BaseException:
        pass
    finally:
        sys.settrace(None)
    return n[0]


def dis(b):
    from miasmx.arch.ia32_arch import x86mnemo
    return x86mnemo.dis(b)


def opkey(b):
    from checks.c01_decode import row_key
    k = row_key(b, len(b))
    return k[1] + k[2]


def check_decoder(b, st_):
    """yield failures (sig, detail, case) for one 16-byte window"""
    r = guarded("dis", dis, b)
    if r[0] == "watchdog":
        return nominate(st_, "dis", dis, (b,), {"dis": b.hex()})
    if r[0] == "exc":
        return [(r[1] + (opkey(b),), "dis(%s) raised %s" % (b.hex(), r[2]), {"dis": b.hex()})]
    i = r[1]
    if i is None:
        st_.klass("dis_rejects")
        # the same bytes behind 1..3 other bytes of a stream, decoded at that offset, must be rejected as well
        from miasmx.core.bin_stream import bin_stream
        for off in (1, 3):
            rr = guarded("dis-stream", lambda: dis(bin_stream(JUNK[2][:off] + b, off)))
            if rr[0] == "ok" and rr[1] is not None:
                return [(("stream-offset", "accepts-what-dis(bytes)-rejects", opkey(b)), "dis(%s) is None but the same bytes decoded from a stream at offset %d give a %s-byte instruction" % (
                    b.hex(), off, rr[1].l), {"dis": b.hex()})]
        return []
    st_.klass("dis_accepts")
    out = []
    l = i.l
    texts = []
    for fmt in FORMATS:
        rr = guarded("str:" + fmt.split()[0].split("_")[0], lambda: i.__str__(asm_format=fmt))
        if rr[0] == "exc":
            # the mnemonic is part of the signature where the failing site is a per-mnemonic table (mnemo_to_att, dict_to_ad)
            site = rr[1] + ((i.m.name,) if not rr[1][2].startswith("__str__ |") else ())
            # a listed row without its mandatory prefix (0f 7c: 'haddINVALID') must not cover the same row *with* the prefix (seed C10-r8-3)
            from checks.c01_decode import split_prefixes
            mand = sorted(set("%02x" % p for p in split_prefixes(b)[0] if p in (0x66, 0xF2, 0xF3)))
            if mand and not rr[1][2].startswith("__str__ |"):
                site = site + ("with-" + "+".join(mand),)
            out.append((site, "%s decodes (%s) but rendering as '%s' raised %s" % (b[:l].hex(), i.m.name, fmt, rr[2]), {"dis": b.hex()}))
            texts.append(None)
        elif rr[0] == "ok":
            if not isinstance(rr[1], str):
                out.append((("str-type", fmt), "%s renders as %r" % (b[:l].hex(), rr[1]), {"dis": b.hex()}))
            texts.append(rr[1])
    if not (0 < l <= len(b)):
        out.append((("length-range", opkey(b[:4])), "dis(%s) reports length %r" % (b.hex(), l), {"dis": b.hex()}))
        return out
    txt = texts[0]
    # truncations
    for k in range(1, l):
        rr = guarded("dis-truncated", dis, b[:k])
        if rr[0] == "exc":
            out.append((rr[1], "dis(%s) (instruction %s truncated to %d bytes) raised %s" % (b[:k].hex(), b[:l].hex(), k, rr[2]), {"dis": b[:k].hex()}))
        elif rr[0] == "ok" and rr[1] is not None:
            out.append((("truncated-accepted", opkey(b[:l])), "%s is a %d-byte instruction but its %d-byte truncation %s is accepted (length %s)" % (
                b[:l].hex(), l, k, b[:k].hex(), rr[1].l), {"dis": b.hex()}))
            break
    # junk tails
    for j in JUNK:
        rr = guarded("dis", dis, b[:l] + j)
        if rr[0] == "ok":
            i2 = rr[1]
            t2 = None
            if i2 is not None and txt is not None:
                try:
                    t2 = str(i2)
                except Exception:
                    t2 = None
            if i2 is None or i2.l != l or (txt is not None and t2 != txt):
                out.append((("over-read", opkey(b[:l])), "dis(%s) has length %d / text %r, but followed by other bytes it has %s / %r" % (
                    b[:l].hex(), l, txt, getattr(i2, "l", None), t2), {"dis": b.hex()}))
                break
        elif rr[0] == "exc":
            out.append((rr[1], "dis(%s + junk) raised %s" % (b[:l].hex(), rr[2]), {"dis": (b[:l] + j).hex()}))
            break
    # stream offsets
    from miasmx.core.bin_stream import bin_stream
    for off in (1, 2, 3):
        buf = JUNK[2][:off] + b[:l] + JUNK[1][:5]
        try:
            s = bin_stream(buf, off)
            i3 = dis(s)
            ok = i3 is not None and i3.l == l and i3.offset == off and s.offset == off + l and (txt is None or str(i3) == txt)
        except Exception as ex:
            out.append((("stream", type(ex).__name__, innermost(sys.exc_info()[2])), "decoding %s from a stream at offset %d raised %s: %s" % (b[:l].hex(), off, type(ex).__name__, ex),
                        {"dis": b.hex()}))
            break
        if not ok:
            out.append((("stream-offset", opkey(b[:l])), "decoding %s from a stream at offset %d: length %s, instr.offset %s, stream.offset %s (expected %d, %d, %d)" % (
                b[:l].hex(), off, getattr(i3, "l", None), getattr(i3, "offset", None), s.offset, l, off, off + l), {"dis": b.hex()}))
            break
    st_.nt(("d", b[:l].hex()))
    if l >= 3:
        st_.sample({"decoded": b[:l].hex(), "intel": " ".join(str(txt).split()), "truncations_checked": l - 1})
    return out


def nominate(st_, entry, f, a, case):
    n = count_lines(f, *a)
    if n > LINE_BOUND:
        return [((entry, "hang"), "call executes more than %d lines" % LINE_BOUND, case)]
    st_.exclude("watchdog_not_reproduced(inconclusive)")
    st_.klass("watchdog_nominee:%s:%d_lines" % (json.dumps(case)[:120], n))
    return []


def w_dis(run, st_, k, chunk):
    for b in chunk:
        st_.ev()
        for sig, det, case in check_decoder(b, st_):
            sig = runner.norm_sig(sig)
            if not any(f[0] == sig for f in st_.failures):
                st_.fail(sig, det, case)


# ---- assembler ------------------------------------------------------------------------
REGS = ["eax", "ecx", "edx", "ebx", "esp", "ebp", "esi", "edi", "ax", "cx", "dx", "bx", "sp", "bp", "si", "di", "al", "cl", "dl", "bl", "ah", "ch",
        "dh", "bh", "es", "cs", "ss", "ds", "fs", "gs", "cr0", "cr3", "dr0", "dr7", "mm0", "mm7", "xmm0", "xmm7", "st", "st(0)", "st(1)", "st(7)", "st1"]
KEYWORDS = ["BYTE", "WORD", "DWORD", "QWORD", "TBYTE", "XMMWORD", "PTR", "OFFSET", "FLAT", "byte", "dword", "ptr", "offset", "flat"]
PUNCT = ["[", "]", "(", ")", "+", "-", "*", ",", ":", "%", "$", ".", "@", "#", ";", "!", "~", "/", "'", '"', "{", "}", "=", "?"]
NUMS = ["0", "1", "2", "4", "8", "3", "-1", "127", "128", "255", "256", "0x10", "0X10", "0xFFFFFFFF", "4294967295", "4294967296", "0x100000000", "-129", "65536",
        "99999999999999999999", "0x", "09", "1e5", "1.5"]
IDENTS = ["toto", ".LC0", "L1", "_x", "a@GOTOFF", "x86", "rep", "lock", "repnz", "repz", "notrack", "data16"]


def vocabulary():
    from miasmx.arch.ia32_arch import x86mndb, mnemo_mmx_hash
    names = set()
    for m in x86mndb.mnemo_lookup:
        if "#" not in m:
            names.add(m)
    names |= set(mnemo_mmx_hash)
    return sorted(names)


def asm_call(att, line):
    from miasmx.arch.ia32_arch import x86mnemo
    return x86mnemo.asm_att(line) if att else x86mnemo.asm(line)


def check_asm(att, line, st_):
    entry = "asm_att" if att else "asm"
    r = guarded(entry, asm_call, att, line)
    case = {"asm": line, "att": int(att)}
    if r[0] == "watchdog":
        return nominate(st_, entry, asm_call, (att, line), case)
    if r[0] == "exc":
        if r[1][1] == "ValueError":
            st_.klass(entry + "_rejects_ValueError")
            return []
        return [(r[1], "%s(%r) raised %s" % (entry, line, r[2]), case)]
    v = r[1]
    if isinstance(v, list) and all(isinstance(x, (bytes, bytearray)) for x in v):
        st_.klass(entry + ("_accepts" if v else "_returns_empty_list"))
        return []
    if isinstance(v, tuple) and len(v) == 2 and v[1] == []:
        st_.klass(entry + "_prefix_only_pair")
        return []
    return [((entry, "result-type", type(v).__name__), "%s(%r) returned %r" % (entry, line, v), case)]


def tokens_strategy(vocab):
    tok = st.one_of(st.sampled_from(vocab), st.sampled_from(REGS), st.sampled_from([r.upper() for r in REGS]), st.sampled_from(["%" + r for r in REGS[:30]]),
                    st.sampled_from(KEYWORDS), st.sampled_from(PUNCT), st.sampled_from(NUMS), st.sampled_from(["$" + n for n in NUMS[:12]]), st.sampled_from(IDENTS))

    @st.composite
    def line(draw):
        n = draw(st.integers(0, 8))
        toks = [draw(tok) for _ in range(n)]
        if n and draw(st.booleans()):
            toks[0] = draw(st.sampled_from(vocab))
        sep = draw(st.sampled_from([" ", " ", "", "\t", ", "]))
        return draw(st.booleans()), sep.join(toks) if sep != "" else " ".join(toks[:1]) + " " + "".join(toks[1:])
    return line()


def mutated_lines(rendered):
    """rendered: list of (att?, text) accepted-looking lines -> strategy of one-token mutations"""
    import re

    @st.composite
    def g(draw):
        att, text = draw(st.sampled_from(rendered))
        toks = re.findall(r"[A-Za-z_.@0-9]+|\S", text)
        if not toks:
            return att, text
        k = draw(st.integers(0, 3))
        i = draw(st.integers(0, len(toks) - 1))
        if k == 0:
            toks = toks[:i] + toks[i + 1:]
        elif k == 1:
            toks = toks[:i] + [toks[i]] + toks[i:]
        elif k == 2 and len(toks) > 1:
            j = draw(st.integers(0, len(toks) - 1))
            toks[i], toks[j] = toks[j], toks[i]
        else:
            toks[i] = draw(st.sampled_from(PUNCT + NUMS + REGS[:12] + KEYWORDS[:6]))
        # re-join: mnemonic separated by a blank, the rest glued (brackets, commas) with single blanks where two words meet
        out = ""
        for t in toks:
            if out and (out[-1].isalnum() or out[-1] in "_.@") and (t[0].isalnum() or t[0] in "_.@%$"):
                out += " "
            out += t
        return att, out
    return g()


def w_asm(run, st_, k, n):
    vocab = vocabulary()

    def orc(x):
        att, line = x
        r = check_asm(att, line, st_)
        st_.nt(("a", att, line))
        if len(line) > 10:
            st_.sample({"asm_att" if att else "asm": line})
        return (r[0][0], r[0][1]) if r else None
    runner.hyp_drive(run, st_, tokens_strategy(vocab), orc, n, run.seed * 1000 + k, to_case=lambda x: {"asm": x[1], "att": int(x[0])}, shrink=True)


def w_asm_mut(run, st_, k, item):
    n, rendered = item

    def orc(x):
        att, line = x
        r = check_asm(att, line, st_)
        st_.nt(("m", att, line))
        st_.sample({"mutated_" + ("asm_att" if att else "asm"): line})
        return (r[0][0], r[0][1]) if r else None
    runner.hyp_drive(run, st_, mutated_lines(rendered), orc, n, run.seed * 1000 + 500 + k, to_case=lambda x: {"asm": x[1], "att": int(x[0])}, shrink=True)


def arith_lines():
    """address / immediate arithmetic the parsers evaluate themselves: number x register in both orders, legal and illegal scales,
    chains and sums - every line must give a list of encodings (possibly empty) or ValueError, quickly"""
    out = []
    regs = ["ecx", "eax", "ebp"]
    nums = ["0", "1", "2", "3", "4", "5", "8", "9", "16", "0x7fffffff", "0xffffffff", "-1", "-2"]
    for r in regs[:2]:
        for n in nums:
            for t in ("%s*%s" % (n, r), "%s*%s" % (r, n), "%s*%s+1" % (n, r), "%s*%s+ebx" % (r, n), "ebx+%s*%s" % (n, r), "%s*%s*2" % (n, r), "2*%s*%s" % (r, n), "%s*(%s+1)" % (n, r)):
                out.append("push %s" % t)
                out.append("mov eax, [%s]" % t)
                out.append("lea edx, [%s]" % t)
                out.append("jmp %s" % t)
    for n in nums:
        for m in nums[:8]:
            out.append("mov eax, %s*%s" % (n, m))
            out.append("mov eax, [%s*%s+%s]" % (n, m, n))
    return sorted(set(out))


def w_asm_arith(run, st_, k, lines):
    for line in lines:
        r = check_asm(False, line, st_)
        st_.nt(("ar", line))
        for sig, det, case in (r or []):
            sig = runner.norm_sig(sig)
            if sig in run.known:
                st_.known_hits[sig] += 1
            elif not any(f[0] == sig for f in st_.failures):
                st_.fail(sig, det + "  [%s]" % line, {"asm": line, "att": 0})


SKELETONS = ["", "eax", "%eax", "ax", "al", "1", "$1", "-1", "4", "(%eax)", "[eax]", "DWORD PTR [eax]", "BYTE PTR [eax]", "$1, (%eax)", "[eax], 1", "DWORD PTR [eax], 1", "(%eax), %ebx",
             "ebx, [eax]", "%eax, %ebx", "eax, ebx", "eax, 1", "$1, %eax", "4(%eax)", "*%eax", "*(%eax)", "st(1)", "%st(1)", "mm0, mm1", "xmm0, xmm1", "%xmm1, %xmm0", "xmm0, [eax]", "(%eax), %xmm0",
             "eax, ebx, 1", "$1, %ebx, %eax", "es:[eax]", "%es:(%eax)", "toto", "$toto", "eax,", ",", "[", "(", "1, 2, 3, 4"]


def w_asm_skel(run, st_, k, names):
    """every mnemonic of the vocabulary (and its AT&T b/w/l-suffixed forms) x a fixed list of operand skeletons, both front ends"""
    for mn in names:
        for sk in SKELETONS:
            for att, m in ((False, mn), (True, mn), (True, mn + "l"), (True, mn + "b"), (True, mn + "w")):
                line = (m + " " + sk).strip()
                r = check_asm(att, line, st_)
                st_.ev()
                st_.nt(("k", att, line))
                for sig, det, case in (r or []):
                    sig = runner.norm_sig(sig)
                    if sig in run.known:
                        st_.known_hits[sig] += 1
                    elif not any(f[0] == sig for f in st_.failures):
                        st_.fail(sig, det, case)


def w_asm_struct(run, st_, k, n):
    """structured lines (vlib/asmgen.py): well-formed operands with boundary immediates and displacements, both syntaxes"""
    from vlib import asmgen

    def orc(sp):
        res = None
        for att in (False, True):
            line = asmgen.att(sp) if att else asmgen.intel(sp, style=k % 2)
            if line is None:
                continue
            r = check_asm(att, line, st_)
            st_.nt(("s", att, line))
            if r and res is None:
                res = (r[0][0], r[0][1] + "  [%s]" % line, {"asm": line, "att": int(att)})
        return res

    def orc2(sp):
        r = orc(sp)
        if r is None:
            return None
        last[0] = r[2]
        return (r[0], r[1])
    last = [None]
    runner.hyp_drive(run, st_, asmgen.spec(), orc2, n, run.seed * 1000 + 700 + k, to_case=lambda sp: last[0] or {"asm": asmgen.intel(sp), "att": 0}, shrink=True)


def rendered_lines(cases):
    out = []
    for b in cases:
        try:
            i = dis(b)
            if i is None:
                continue
            out.append((False, " ".join(str(i).split())))
            out.append((True, " ".join(i.__str__(asm_format="att_syntax binutils").split())))
        except Exception:
            continue
    return out


def fuzz_campaign(run):
    """coverage-guided tier (atheris / libFuzzer): independent campaigns in child processes, see vlib/fuzz_c10.py"""
    import os
    import subprocess
    try:
        import atheris  # noqa: F401
    except Exception as ex:
        run.exclude("atheris_unavailable(%s): coverage-guided campaigns skipped" % type(ex).__name__)
        return
    known_path = os.path.join(run.scratch, "c10_known.json")
    with open(known_path, "w") as f:
        json.dump([list(s) for s in run.known], f)
    nd, na = run.pick(1500, 120000), run.pick(2500, 300000)
    plan = run.pick([("dis", nd, "seeded"), ("dis", nd, "empty"), ("toks", na, "empty"), ("toks", na, "empty"), ("text", na, "seeded"), ("text", na, "empty")],
                    [("dis", nd, "seeded")] * 3 + [("dis", nd, "empty")] * 3 + [("toks", na, "empty")] * 5 + [("text", na, "seeded")] * 3 + [("text", na, "empty")] * 2)
    procs = []
    env = dict(os.environ)
    for k, (target, n, corpus) in enumerate(plan):
        out = os.path.join(run.scratch, "fuzz-%d-%s" % (k, target))
        os.makedirs(out, exist_ok=True)
        # (stderr goes to a file: a pipe that nobody reads while the other campaigns are awaited would block the child once it is full)
        procs.append((k, target, n, corpus, out, subprocess.Popen([sys.executable, "-m", "vlib.fuzz_c10", target, str(n), str(run.seed * 1000 + k), out, known_path, corpus],
                                                                  cwd=runner.HERE, env=env, stdout=subprocess.DEVNULL, stderr=open(os.path.join(out, "stderr.txt"), "wb"))))
    for k, target, n, corpus, out, p in procs:
        p.wait()
        with open(os.path.join(out, "stderr.txt"), "rb") as f:
            err = f.read()[-2000:].decode(errors="replace")
        sp = os.path.join(out, "stats.json")
        stats = json.load(open(sp)) if os.path.exists(sp) else {}
        if not stats.get("final"):
            raise runner.Inconclusive("fuzz campaign %d (%s) ended early (exit %s): %s" % (k, target, p.returncode, err[-400:].replace("\n", " | ")))
        st = runner.Stats()
        st.evals = stats["executions"]
        st.nontrivial = set(stats["nontrivial"])
        for c, v in stats["classes"].items():
            st.classes["fuzz:%s:%s" % (target, c)] = v
        st.classes["fuzz:%s:campaigns(%s corpus)" % (target, corpus)] = 1
        st.classes["fuzz:%s:corpus_units_kept_by_coverage" % target] = stats["corpus_files"]
        st.classes["fuzz:%s:known_finding_hits" % target] = stats["known_hits"]
        for s in stats["samples"][:3]:
            st.sample({"fuzz:" + target: s})
        fp = os.path.join(out, "failures.jsonl")
        if os.path.exists(fp):
            for l in open(fp):
                fl = json.loads(l)
                st.fail(fl["sig"], "[atheris %s campaign] %s" % (target, fl["detail"]), fl["case"])
        run.absorb(st)
    run.extra["fuzz_campaigns"] = [{"target": t, "runs": n, "corpus": c, "seed": run.seed * 1000 + k} for k, (t, n, c) in enumerate(plan)]


def main(run):
    run.rule = ("decoder: every window of the structured byte space + full ModRM grids + x87 + control-transfer forms + random 16-byte strings; each accepted instruction "
                "is re-decoded at every truncation length, with three junk tails, and from a stream at offsets 1..3. assembler: Hypothesis token sequences (<= 8 tokens over "
                "mnemonics, registers in both cases, size keywords, punctuation, boundary numbers, identifiers) and one-token mutations of rendered instructions, for asm and asm_att. "
                "non-trivial = an accepted instruction that went through the truncation/junk/stream checks, or an assembler call; distinct by bytes / by (syntax, line)")
    run.assumptions = ["the assembler's documented error is ValueError (raised by p_error, mnemo_from_att, dict_mul, forge_opc, check_imm_size); any other exception type is a failure",
                       "termination: 20 s watchdog only nominates; a hang is reported when the call also executes more than 3*10^6 lines under sys.settrace"]
    cs = set(x86space.cases(run.tier, run.seed)) | set(x86space.modrm_grid()) | set(x86space.x87_cases()) | set(x86space.control_flow_cases()) | set(x86space.boundary_value_cases())
    cs |= set(x86space.random_cases(run.pick(20000, 400000), run.seed)) | set(x86space.long_prefix_cases())
    cs = sorted(cs)
    runner.pmap(run, w_dis, runner.chunks(cs, 64))
    run.extra["decoder_windows"] = len(cs)
    runner.pmap(run, w_asm, [run.pick(2500, 40000)] * 16)
    with runner.quiet():
        rend = rendered_lines(sorted(set(x86space.cases("quick", run.seed, thin=23)))[:6000])
    runner.pmap(run, w_asm_mut, [(run.pick(2500, 40000), rend)] * 16)
    runner.pmap(run, w_asm_struct, [run.pick(1500, 30000)] * 16)
    runner.pmap(run, w_asm_arith, list(runner.chunks(arith_lines(), 64)))
    runner.pmap(run, w_asm_skel, list(runner.chunks(vocabulary(), 64)))
    fuzz_campaign(run)


def replay(run, case):
    st_ = runner.Stats()
    with runner.quiet():
        if "dis" in case:
            r = check_decoder(bytes.fromhex(case["dis"]), st_)
        else:
            r = check_asm(bool(case["att"]), case["asm"], st_)
    if not r:
        return None
    for sig, det, _ in r:
        if run.want_sig is not None and runner.norm_sig(sig) == run.want_sig:
            return (sig, det)
    return (r[0][0], r[0][1])
