"""C04 - lifted x86 semantics match the processor on the integer core.

For every instruction instance of vlib/coregen.py (assembled by GNU as) and a set of initial states (boundary-biased registers,
random flags and memory), the instruction is (a) executed natively by the 32-bit executor .build/cpu32 and (b) lifted by miasmX and
evaluated by the reference IR interpreter vlib/irsem.py - all right-hand sides on the pre-state, then committed.  Compared: the 8
general registers, the architecturally defined status flags (per-instruction 'undefined' masks from the SDM), every byte of the data
window, and the control-flow outcome (stub reached vs the value assigned to eip, or the fall-through address).
"""
import hashlib
from vlib import runner, refs, cpu, coregen, irsem

FLAGS = ["cf", "pf", "af", "zf", "nf", "of"]
BIT = cpu.STATUS
GPR = cpu.REGS
SUB = {"al": ("eax", 0, 8), "cl": ("ecx", 0, 8), "dl": ("edx", 0, 8), "bl": ("ebx", 0, 8), "ah": ("eax", 8, 16), "ch": ("ecx", 8, 16), "dh": ("edx", 8, 16), "bh": ("ebx", 8, 16)}
BOUND = [0, 1, 2, 0x7f, 0x80, 0xff, 0x100, 0x7fff, 0x8000, 0xffff, 0x10000, 0x7fffffff, 0x80000000, 0xffffffff, 0xfffffffe, 0x55555555, 0x12345678]


def rnd(*key):
    return int.from_bytes(hashlib.blake2b(repr(key).encode(), digest_size=8).digest(), "little")


def undefined_flags(inst, pre):
    """set of flag names the architecture leaves undefined for this instance in this state; '*dest' = destination undefined"""
    f = inst["family"]
    w = inst["size"]
    cnt = inst.get("count")
    if cnt == "cl":
        cnt = pre["regs"][1] & 0xFF
    u = set()
    if f in ("and", "or", "xor", "test"):
        u.add("af")
    elif f in ("shl", "shr", "sar"):
        c = (cnt or 0) & 0x1F
        if c == 0:
            return set()
        u.add("af")
        if c != 1:
            u.add("of")
        if c >= w and f in ("shl", "shr"):
            u.add("cf")             # SDM: CF is undefined for SHL / SHR when the count is >= the operand size; for SAR it stays the sign bit
    elif f in ("rol", "ror", "rcl", "rcr"):
        c = (cnt or 0) & 0x1F
        if f in ("rcl", "rcr"):
            c %= (w + 1)
        else:
            cm = c % w
        if (cnt or 0) & 0x1F != 1:
            u.add("of")
        if f in ("rol", "ror") and c != 0 and c % w == 0:
            pass        # CF is still defined (= bit rotated in) when the masked count is a multiple of the width
    elif f in ("shld", "shrd"):
        c = (cnt or 0) & 0x1F
        if c == 0:
            return set()
        u.add("af")
        if c != 1:
            u.add("of")
        if c > w:
            u.update(["cf", "zf", "nf", "pf", "of", "*dest"])
    elif f in ("mul", "imul"):
        u.update(["zf", "nf", "af", "pf"])
    elif f in ("div", "idiv"):
        u.update(FLAGS)
    elif f in ("bsf", "bsr"):
        u.update(["cf", "of", "nf", "af", "pf"])
        u.add("*dest_if_zero")
    elif f in ("bt", "bts", "btr", "btc"):
        u.update(["of", "nf", "af", "pf"])
    return u


def make_state(inst, k, seed):
    """deterministic state #k for an instance: dict(regs, eflags, data)"""
    key = (seed, inst["text"], k)
    regs = []
    for i, r in enumerate(GPR):
        h = rnd(key, "r", i)
        regs.append(BOUND[(h >> 8) % len(BOUND)] if h & 1 else (h >> 8) & 0xFFFFFFFF)
    # directed: first states put boundary pairs into the two most used data registers
    if k < len(BOUND):
        regs[0] = BOUND[k]
        regs[1] = BOUND[(k * 7 + 3) % len(BOUND)]
    regs[6] = cpu.WIN + 0x200                 # esi
    regs[7] = rnd(key, "edi") % 8             # edi: small index
    regs[4] = cpu.WIN + 0x380                 # esp
    fam = inst["family"]
    if inst["form"] == "string":
        regs[7] = cpu.WIN + 0x280 + (rnd(key, "d") % 4) * 4
        regs[6] = cpu.WIN + 0x200 + (rnd(key, "s") % 4) * 4
    cnt = inst.get("count")
    if cnt == "cl":
        regs[1] = (regs[1] & 0xFFFFFF00) | [0, 1, 2, 7, 8, 15, 16, 17, 31, 32, 33, 0xff, 0x3f][k % 13]
    if fam == "leave":
        regs[5] = cpu.WIN + 0x300 + (rnd(key, "bp") % 8) * 4
    if fam in ("loop", "loope", "loopne", "jecxz"):
        regs[1] = [0, 1, 2, 3, 0x10000, 0xffffffff, 0x80000000, 0x10001, 0x20000, 0xffff0001][k % 10]
    if fam in ("bt", "bts", "btr", "btc") and "m" in inst["form"]:
        pass
    if fam in ("div", "idiv"):
        # make non-faulting cases likely: small dividend high part
        if k % 3:
            regs[2] = rnd(key, "hi") % 3 if fam == "div" else [0, 0xffffffff, 0][k % 3]
            regs[0] = (regs[0] & 0xffff00ff) if inst["size"] == 8 and k % 2 else regs[0]
    fl = 0
    h = rnd(key, "fl")
    for i, name in enumerate(FLAGS):
        if (h >> i) & 1:
            fl |= 1 << BIT[name]
    if inst["form"] == "string" or fam in ("cld", "std"):
        if (h >> 9) & 1:
            fl |= 1 << BIT["df"]
    data = bytearray(hashlib.blake2b(repr(key).encode(), digest_size=64).digest() * 16)
    for j in range(0, 1024, 64):
        data[j:j + 8] = rnd(key, "m", j).to_bytes(8, "little")
    stubs = []
    ind = inst.get("ind")
    tgt = (cpu.ENTRY_LOW if inst.get("low") else cpu.ENTRY) + 0x100 + (rnd(key, "t") % 4) * 0x20
    if ind in ("eax", "ebx"):
        regs[GPR.index(ind)] = tgt
        stubs.append(tgt)
    elif ind == "mem":
        off = regs[6] + 0x10 - cpu.WIN
        data[off:off + 4] = tgt.to_bytes(4, "little")
        stubs.append(tgt)
    elif ind == "stack":
        off = regs[4] - cpu.WIN
        data[off:off + 4] = tgt.to_bytes(4, "little")
        stubs.append(tgt)
    return {"regs": regs, "eflags": fl, "data": bytes(data), "extra_stubs": stubs}


def entry_of(inst):
    """address the instruction runs at: 66-prefixed near branches (low=True) run below 64 KiB, where the 16-bit truncation of eip is harmless"""
    return cpu.ENTRY_LOW if inst.get("low") else cpu.ENTRY


def lift(code, entry=cpu.ENTRY):
    from miasmx.arch.ia32_arch import x86mnemo
    from miasmx.tools import emul_helper
    from miasmx.tools.modint import uint32
    from miasmx.expression.expression import ExprInt
    i = x86mnemo.dis(code)
    if i is None or i.l != len(code):
        return None, "decode"
    i.offset = entry
    ex = emul_helper.get_instr_expr(i, ExprInt(uint32(entry + i.l)), [])
    return (i, ex), None


def uses_uninterpreted(ex):
    bad = []
    for e in ex:
        def f(x):
            if irsem.cname(x) == "ExprOp" and not irsem.is_interpreted(x.op, len(x.args)):
                bad.append(x.op)
        irsem.walk(e.src, f)
        if irsem.cname(e.dst) == "ExprMem":
            irsem.walk(e.dst.arg, f)
    return bad


def reference(ex, st, segs):
    """evaluate the lifted list on the pre-state -> (regs, flags dict, mem writes dict addr->byte, eip or None, written flag names)"""
    ids = {}
    for n, v in zip(GPR, st["regs"]):
        ids[n] = v
    for n in FLAGS + ["df"]:
        ids[n] = (st["eflags"] >> BIT[n]) & 1
    ids.update(segs)
    mem = dict((cpu.WIN + i, b) for i, b in enumerate(st["data"]))
    env = irsem.Env(ids, 0, mem)
    new_ids, writes = {}, {}
    eip = None
    for e in ex:
        val = irsem.ev_lazy(e.src, env, uninterp="raise")
        d = e.dst
        if irsem.cname(d) == "ExprId":
            val &= (1 << d.size) - 1
            if d.name == "eip":
                eip = val
            else:
                new_ids[d.name] = val
        else:
            a = irsem.ev_lazy(d.arg, env, uninterp="raise")
            for i in range(d.size // 8):
                writes[(a + i) & 0xFFFFFFFF] = (val >> (8 * i)) & 0xFF
    regs = [new_ids.get(n, ids[n]) & 0xFFFFFFFF for n in GPR]
    flags = dict((n, new_ids.get(n, ids[n]) & 1) for n in FLAGS + ["df"])
    return regs, flags, writes, eip, set(new_ids), set(env.read_mem)


def count_class(inst, st):
    c = inst.get("count")
    if c is None:
        return ""
    if c == "cl":
        c = st["regs"][1] & 0xFF
    c5 = c & 0x1F
    w = inst["size"]
    return "c0" if c5 == 0 else "c1" if c5 == 1 else "c<w" if c5 < w else "c=w" if c5 == w else "c>w"


def compare(inst, code, st, out, ex, segs):
    """-> list of (location kind, detail)"""
    fam = inst["family"]
    probs = []
    und = undefined_flags(inst, st)
    try:
        regs, flags, writes, eip, wids, reads = reference(ex, st, segs)
    except irsem.Undefined:
        return "excluded:undefined_operator_value(bsf/bsr of 0)"
    except ZeroDivisionError:
        return "excluded:division_by_zero"
    if "*dest" in und:
        return "excluded:architecturally_undefined_result"
    for a in list(reads):
        if not (cpu.WIN <= a < cpu.WIN + cpu.WIN_LEN):
            # the CPU did not fault (e.g. the address lies in the executor's own stack): the value read is unknown, nothing to compare against
            return "excluded:access_outside_data_window"
    # a lifted WRITE outside the window cannot be observed, but the window can: the bytes the processor changed inside it must still be
    # bytes the lifted semantics write (66-prefixed call: the processor pushes at esp-2, the lifted semantics at (sp-2) & 0xffff)
    outside = [a for a in writes if not (cpu.WIN <= a < cpu.WIN + cpu.WIN_LEN)]
    if outside and bytes(st["data"]) == bytes(out["data"]):
        return "excluded:access_outside_data_window"
    for a in outside:
        del writes[a]
    dest_undef_zero = "*dest_if_zero" in und
    for i, n in enumerate(GPR):
        if regs[i] != out["regs"][i]:
            if dest_undef_zero:
                continue
            probs.append(("reg:" + n, "%s = 0x%08x on the CPU, 0x%08x by the lifted semantics" % (n, out["regs"][i], regs[i])))
    for n in FLAGS + ["df"]:
        if n in und:
            continue
        cv = (out["eflags"] >> BIT[n]) & 1
        if flags[n] != cv:
            probs.append(("flag:" + n, "%s = %d on the CPU, %d by the lifted semantics" % (n, cv, flags[n])))
    mem = bytearray(st["data"])
    for a, b in writes.items():
        mem[a - cpu.WIN] = b
    if bytes(mem) != out["data"]:
        diff = [i for i in range(cpu.WIN_LEN) if mem[i] != out["data"][i]]
        probs.append(("memory", "bytes at window offsets %s: CPU %s, lifted %s" % (diff[:8], bytes(out["data"][i] for i in diff[:8]).hex(), bytes(mem[i] for i in diff[:8]).hex())))
    nxt = entry_of(inst) + len(code)
    want = eip if eip is not None else nxt
    if inst.get("targets"):
        # direct relative forms: the statement constrains "branch taken or not" and the fall-through address (the lifter is
        # handed the raw displacement operand; resolving it to an address is the caller's job, see C17 for the target)
        taken_cpu = out["marker"] != nxt
        taken_lift = (want & 0xFFFFFFFF) != nxt
        if taken_cpu != taken_lift:
            probs.append(("control-flow", "CPU %s the branch, lifted semantics %s it (eip = 0x%x, fall-through 0x%x)" % (
                "took" if taken_cpu else "did not take", "take" if taken_lift else "do not take", want & 0xFFFFFFFF, nxt)))
    elif out["marker"] != (want & 0xFFFFFFFF):
        probs.append(("control-flow", "CPU continued at 0x%x, lifted semantics say 0x%x" % (out["marker"], want & 0xFFFFFFFF)))
    return probs


def seg_values(c):
    """real selector values of the executor process"""
    outs = c.run([{"code": bytes.fromhex("8cd8") + bytes.fromhex("8cc1") + bytes.fromhex("8cd2") + bytes.fromhex("8ccb"), "stubs": [cpu.ENTRY + 8],
                   "regs": [0, 0, 0, 0, cpu.WIN + 0x380, 0, 0, 0], "eflags": 0, "data": bytes(1024)}])
    o = outs[0]
    return {"ds": o["regs"][0] & 0xFFFF, "es": o["regs"][1] & 0xFFFF, "ss": o["regs"][2] & 0xFFFF, "cs": o["regs"][3] & 0xFFFF, "fs": 0, "gs": 0}


def worker(run, st_, k, items):
    c = cpu.CPU()
    segs = seg_values(c)
    nstates = run.pick(64, 1200)
    for inst, code in items:
        try:
            r, err = lift(code, entry_of(inst))
        except Exception as ex:
            st_.exclude("lifting_raises(C11):%s" % inst["family"])
            continue
        if err:
            st_.exclude("decode_disagrees_with_gas(C01)")
            continue
        i, ex = r
        bad = uses_uninterpreted(ex)
        if bad:
            st_.klass("uninterpreted:%s:%s" % (inst["family"], ",".join(sorted(set(bad)))))
            st_.exclude("lifted_with_uninterpreted_operator")
            continue
        states = [make_state(inst, j, run.seed) for j in range(nstates)]
        cases = []
        for s in states:
            stubs = [entry_of(inst) + len(code)] + [entry_of(inst) + t for t in inst.get("targets", [])] + s["extra_stubs"]
            cases.append({"code": code, "stubs": stubs, "regs": s["regs"], "eflags": s["eflags"], "data": s["data"], "low": bool(inst.get("low"))})
        outs = c.run(cases)
        for j, (s, o) in enumerate(zip(states, outs)):
            st_.ev()
            if o["fault"] is not None:
                st_.exclude("cpu_fault_signal_%d" % o["fault"])
                continue
            try:
                v = compare(inst, code, s, o, ex, segs)
            except irsem.Unsupported as e:
                st_.exclude("reference_cannot_evaluate:%s:%s" % (inst["family"], str(e)[:40]))
                continue
            if isinstance(v, str):
                st_.exclude(v.split(":", 1)[1])
                continue
            changed = o["regs"] != s["regs"] or o["data"] != s["data"] or (o["eflags"] ^ s["eflags"]) & cpu.FLAG_MASK or o["marker"] != entry_of(inst) + len(code)
            if not v:
                st_.klass("agree")
                if changed:
                    st_.nt((inst["text"], count_class(inst, s), (o["eflags"] ^ s["eflags"]) & cpu.FLAG_MASK))
                    if j == 0:
                        st_.sample({"instruction": inst["text"], "bytes": code.hex(), "state": j, "eflags_in": hex(s["eflags"]), "eflags_out": hex(o["eflags"] & cpu.FLAG_MASK)})
                continue
            st_.klass("disagree")
            for kind, det in v:
                sig = runner.norm_sig((inst["family"], inst["size"], inst["form"] if (inst["family"] in ("push", "pop", "jmp", "call", "ret") or inst["form"].endswith(("-a16", "-o16", "_esp"))) else "", kind, count_class(inst, s)))
                if not any(f[0] == sig for f in st_.failures):
                    st_.fail(sig, "%s (%s), state %d [eflags=0x%x regs=%s]: %s" % (inst["text"], code.hex(), j, s["eflags"], ["%x" % x for x in s["regs"]], det),
                             {"inst": inst, "code": code.hex(), "state": j, "seed": run.seed, "sig": list(sig)})
    c.close()


def main(run):
    refs.need("as")
    cpu.exe()
    run.rule = ("enumeration: integer-core instruction instances (mnemonic x operand size x form x count class x condition code, assembled by GNU as) x %s deterministic "
                "states each (boundary pairs first, then pseudo-random registers, flags and memory derived from VERIF_SEED). non-trivial = a run in which the CPU changed a "
                "compared location and both sides agree; distinct = (instruction text, count class, flags flipped)" % run.pick(64, 1200))
    run.assumptions = ["this machine's CPU is the reference; undefined results are masked by a per-instruction table written from the Intel SDM",
                       "vlib/irsem.py evaluates the lifted list (all right-hand sides on the pre-state)", "faulting runs and instances whose lifting uses an uninterpreted operator are excluded and counted",
                       "states are a pure function of VERIF_SEED (hash-derived), not Hypothesis draws: the replay file stores instruction and state index"]
    insts = coregen.instances(run.tier)
    codes = refs.gas([i["text"] for i in insts], syntax="att", scratch=run.scratch)
    items = []
    for i, c in zip(insts, codes):
        if c is None:
            run.exclude("gas_rejects_instance")
            continue
        items.append((i, c))
    run.extra["instances"] = len(items)
    runner.pmap(run, worker, runner.chunks(items, 64))


def replay(run, case):
    inst = case["inst"]
    code = bytes.fromhex(case["code"])
    c = cpu.CPU()
    segs = seg_values(c)
    try:
        r, err = lift(code, entry_of(inst))
    except Exception:
        return None
    if err:
        return None
    i, ex = r
    s = make_state(inst, case["state"], run.seed if "seed" not in case else case["seed"])
    stubs = [entry_of(inst) + len(code)] + [entry_of(inst) + t for t in inst.get("targets", [])] + s["extra_stubs"]
    o = c.run([{"code": code, "stubs": stubs, "regs": s["regs"], "eflags": s["eflags"], "data": s["data"], "low": bool(inst.get("low"))}])[0]
    c.close()
    if o["fault"] is not None:
        return None
    v = compare(inst, code, s, o, ex, segs)
    if isinstance(v, str) or not v:
        return None
    want = run.want_sig
    for kind, det in v:
        sig = runner.norm_sig((inst["family"], inst["size"], inst["form"] if (inst["family"] in ("push", "pop", "jmp", "call", "ret") or inst["form"].endswith(("-a16", "-o16", "_esp"))) else "", kind, count_class(inst, s)))
        if want is None or sig == want:
            return (sig, det)
    return None
