"""C06 - symbolic evaluation is sound substitution.


case = (expression e, state, valuations):
  state binds identifiers of e to a constant / a symbolic expression over free symbols / nothing, and
  binds some memory cells read by e (same address, same size) to a constant or symbolic expression.
oracle: r = eval_abs(state).eval_expr(e, {})
  value(r, val) == value(e, val o state)   for every valuation of the free symbols, where val o state gives
  each bound identifier the value of its binding and overlays each bound cell's bytes at the cell's address;
  width(r) == width(e); when every input is a constant and every operator is interpreted, r is that constant.
Partial overlaps between a read and a bound cell of another width/offset belong to C07 and are excluded here.
"""
import sys
from hypothesis import strategies as st
from vlib import runner, irsem, exprgen
from vlib.exprgen import build, sshow, swidth, sids, paths, get_at, set_at, to_script, unify_rotate_counts
from checks.c15_struct import substitute, exc_sig

MEM_LIMIT = 6 << 30       # bytes of address space for this check's processes (see vlib/main.py)
NV = 6
FREE = {1: ["f1", "g1"], 8: ["f8", "g8"], 16: ["f16", "g16"], 32: ["f32", "g32", "h32"], 64: ["f64", "g64"]}

LIFT2 = ["umul16_lo", "umul16_hi", "imul16_lo", "imul16_hi", "umul32_lo", "umul32_hi", "imul32_lo", "imul32_hi"]
LIFT3 = ["div", "rem", "idiv", "irem"]
ROTC = ["<<<c_rez", "<<<c_cf", ">>>c_rez", ">>>c_cf"]


def rename_free(s):
    """map the generator's identifiers to free-symbol names (so that they are never bound)"""
    k = s[0]
    if k == "id":
        names = FREE[s[2]]
        return ["id", names[hash(s[1]) % len(names)] if False else names[(len(s[1]) + ord(s[1][0])) % len(names)], s[2]]
    if k == "mem":
        return ["mem", rename_free(s[1]), s[2], None]
    if k == "op":
        return ["op", s[1], [rename_free(a) for a in s[2]]]
    if k == "cond":
        return ["cond", rename_free(s[1]), rename_free(s[2]), rename_free(s[3])]
    if k == "slice":
        return ["slice", rename_free(s[1]), s[2], s[3]]
    if k == "compose":
        return ["compose", [[rename_free(x), a, b] for x, a, b in s[1]]]
    return s


@st.composite
def lifter_expr(draw, w):
    """expressions using the operators the x86 lifter emits for the integer core"""
    c = draw(st.integers(0, 5))
    sub = lambda ww: draw(exprgen.expr(ww, 1, mem=True))
    if c == 0 and w in (16, 32):
        op = draw(st.sampled_from([o for o in LIFT2 if str(w) in o]))
        return ["op", op, [sub(w), sub(w)]]
    if c == 1 and w in (8, 16, 32):
        op = draw(st.sampled_from(LIFT3)) + str(w)
        return ["op", op, [sub(w), sub(w), sub(w)]]
    if c == 2 and w == 32:
        return ["op", draw(st.sampled_from(["bsf", "bsr"])), [sub(32)]]
    if c == 3 and w in (8, 16, 32):
        cw = draw(st.sampled_from([w, 8]))
        return ["op", draw(st.sampled_from(ROTC)), [sub(w), sub(cw), draw(exprgen.expr(1, 0))]]
    if c == 4:
        return ["op", "<", [sub(w), sub(w)]]
    if c == 5 and w >= 8:
        return ["op", "!", [sub(w)]]
    return ["op", "+", [sub(w), sub(w), sub(w), sub(w)][:draw(st.integers(3, 4))]]


@st.composite
def cases(draw):
    w = draw(st.sampled_from(exprgen.WIDTHS))
    c = draw(st.integers(0, 9))
    if c < 6:
        e = draw(exprgen.expr(w, 3))
    elif c < 8:
        # n-ary with 3 and 4 operands on purpose
        op = draw(st.sampled_from(exprgen.ASSOC))
        e = ["op", op, [draw(exprgen.expr(w, 1)) for _ in range(draw(st.integers(3, 4)))]]
    else:
        e = draw(lifter_expr(w))
        if draw(st.booleans()):
            e = ["op", "^", [e, draw(exprgen.expr(swidth(e), 1))]]
    ids = sids(e)
    mode = draw(st.sampled_from(["mixed", "mixed", "allconst", "allsym"]))
    bind = {}
    for n in sorted(ids):
        k = draw(st.sampled_from(["const", "sym", "absent"])) if mode == "mixed" else ("const" if mode == "allconst" else "sym")
        if k == "const":
            bind[n] = ["int", ids[n], draw(exprgen.value(ids[n]))] if ids[n] in (1, 8, 16, 32, 64) else None
        elif k == "sym":
            bind[n] = rename_free(draw(exprgen.expr(ids[n], 1, mem=False, ops_extra=False)))
        if bind.get(n) is None:
            bind.pop(n, None)
    # memory cells: bind some of the memory nodes of e
    mems = []
    for p in paths(e):
        n = get_at(e, p)
        if n[0] == "mem" and n not in mems:
            mems.append(n)
    cells = []
    for m in mems:
        k = draw(st.sampled_from(["const", "sym", "absent"])) if mode == "mixed" else ("const" if mode == "allconst" else "sym")
        if k == "const":
            cells.append([m, ["int", m[2], draw(exprgen.value(m[2]))]])
        elif k == "sym":
            cells.append([m, rename_free(draw(exprgen.expr(m[2], 1, mem=False, ops_extra=False)))])
    return {"e": e, "bind": bind, "cells": cells}


@st.composite
def partial_write_cases(draw):
    """the shape a sub-register write leaves in a machine state: a Compose of constants / constant-bound identifiers with ONE
    conditional on a free flag among them, at any slot (setcc into al / ah / the middle of a register)"""
    w = draw(st.sampled_from([16, 32, 64]))
    parts, pos = [], 0
    while pos < w:
        pw = draw(st.sampled_from([x for x in (8, 16, 32) if pos + x <= w]))
        parts.append((pos, pw))
        pos += pw
    k = draw(st.integers(0, len(parts) - 1))
    import itertools
    names = ("q%d" % i for i in itertools.count())
    bind = {}

    def leaf(pw):
        if draw(st.booleans()):
            return ["int", pw, draw(exprgen.value(pw))]
        n = "%s_%d" % (next(names), pw)
        bind[n] = ["int", pw, draw(exprgen.value(pw))]
        return ["id", n, pw]
    slots = []
    for i, (a, pw) in enumerate(parts):
        if i == k:
            slots.append([["cond", ["id", "p1", 1], leaf(pw), leaf(pw)], a, a + pw])
        else:
            slots.append([leaf(pw), a, a + pw])
    e = ["compose", slots]
    if draw(st.integers(0, 2)) == 0:
        e = ["op", draw(st.sampled_from(["^", "+", "&"])), [e, draw(exprgen.const(w))]]
    if draw(st.integers(0, 3)) == 0:
        bind["p1"] = ["id", "f1", 1]
    return {"e": e, "bind": bind, "cells": []}


@st.composite
def bit_scan_cases(draw):
    """bsf / bsr of constants with one or two bits set, at every bit position (the top bit included)"""
    w = draw(st.sampled_from([16, 32]))
    k = draw(st.integers(0, w - 1))
    v = (1 << k) | (draw(st.sampled_from([0, 0, 1 << draw(st.integers(0, w - 1))])))
    e = ["op", draw(st.sampled_from(["bsf", "bsr"])), [["id", "a%d" % w, w]]]
    if draw(st.booleans()):
        e = ["op", "+", [e, ["id", "b%d" % w, w]]]
    return {"e": e, "bind": {"a%d" % w: ["int", w, v]}, "cells": []}


CORE_OPS = set(["+", "*", "^", "&", "|", "-", "<<", ">>", "a>>", "<<<", ">>>", "==", "parity", "!", "<"])


def all_interpreted(s):
    """only the IR's core operators: the lifter's named operators (umul32_hi, div32, ...) may stay symbolic
    on constant operands (their value is still compared)"""
    for p in paths(s):
        n = get_at(s, p)
        if n[0] == "op" and n[1] not in CORE_OPS:
            return False
    return True


def oracle(case, info=None):
    from miasmx.expression import expression_eval_abstract as ea
    from miasmx.expression.expression_helper import expr_simp
    from miasmx.expression import expression as ex_
    e_s, bind, cells = case["e"], case["bind"], case["cells"]
    ea.eval_abs.get_mem_overlapping.__defaults__[0].clear()     # shared default cache (recorded under C12)
    ids = sids(e_s)
    # machine state
    vars_ = {}
    for n, b in bind.items():
        vars_[build(["id", n, ids[n]])] = build(b)
    try:
        m0 = ea.eval_abs(dict(vars_))
        keyed = []
        # inner cells first: the address of an outer cell is evaluated in the state that already holds them
        for m, b in sorted(cells, key=lambda c: exprgen.snodes(c[0])):
            a = expr_simp(m0.eval_expr(build(m[1]), {}))
            if any(to_script(a) == a0 and m[2] != s0 for a0, s0, _ in keyed):
                return "excluded:cells_overlap"
            if any(to_script(a) == a0 for a0, s0, _ in keyed):
                continue
            keyed.append((to_script(a), m[2], b))
            vars_[ex_.ExprMem(build(to_script(a)), m[2])] = build(b)
            m0 = ea.eval_abs(dict(vars_))
        # cells that overlap one another partially are C07's domain
        for i, (a, size, b) in enumerate(keyed):
            for a2, size2, b2 in keyed[i + 1:]:
                d = expr_simp(m0.eval_expr(ex_.ExprOp("-", build(a), build(a2)), {}))
                if d.__class__.__name__ == "ExprInt":
                    dv = irsem.sx(int(d.arg) & 0xFFFFFFFF, 32)
                    if -(size // 8) < dv < size2 // 8:
                        return "excluded:cells_overlap"
        # exclude partial overlaps between any memory node of e and a bound cell (C07's domain)
        unbound = []
        for p in paths(e_s):
            n = get_at(e_s, p)
            if n[0] != "mem":
                continue
            na = expr_simp(m0.eval_expr(build(n[1]), {}))
            if not any(to_script(na) == a and n[2] == size for a, size, b in keyed):
                unbound.append((to_script(na), n[2]))
            for a, size, b in keyed:
                d = expr_simp(m0.eval_expr(ex_.ExprOp("-", na, build(a)), {}))
                if d.__class__.__name__ == "ExprInt":
                    dv = irsem.sx(int(d.arg) & 0xFFFFFFFF, 32)
                    same = (dv == 0 and n[2] == size)
                    if not same and -(n[2] // 8) < dv < size // 8:
                        return "excluded:partial_overlap"
                elif to_script(na) != a:
                    pass
        machine = ea.eval_abs(vars_)
        r = machine.eval_expr(build(e_s), {})
    except Exception as ex:
        sig = exc_sig("eval", ex)
        op = ""
        if type(ex).__name__ == "KeyError":
            op = str(ex.args[0]) if ex.args else ""
        elif type(ex).__name__ == "ValueError" and not case.get("_unified"):
            # attribution by intervention: does the failure disappear when every rotate count has the width of its operand?
            c2 = {"e": unify_rotate_counts(e_s), "bind": dict((n, unify_rotate_counts(b)) for n, b in bind.items()),
                  "cells": [[unify_rotate_counts(m), unify_rotate_counts(b)] for m, b in cells], "_unified": True}
            if c2["e"] != e_s or c2["bind"] != bind or c2["cells"] != cells:
                r2 = oracle(c2)
                if not (isinstance(r2, tuple) and r2[0][:2] == ("eval", "raise")):
                    op = "mixed-width rotate chain"
        return (sig + (op,), "%s: %s evaluating %s with %s" % (type(ex).__name__, ex, sshow(e_s), show_state(case)))
    try:
        rw = irsem.width(r)
    except Exception as ex:
        return (("result", "illformed"), "%s: result %s of %s" % (ex, r, sshow(e_s)))
    if rw != swidth(e_s):
        return (("result", "width", topop(e_s)), "%s has width %d but evaluates to %s of width %d (state %s)" % (sshow(e_s), swidth(e_s), r, rw, show_state(case)))
    # valuations over everything that may stay free
    allids = dict(ids)
    for b in list(bind.values()) + [c[1] for c in cells]:
        allids.update(sids(b))
    allids.update(irsem.ids_of(r))
    ok_vals = 0
    for v, ms in exprgen.fixed_valuations(allids, NV, 11):
        plain = irsem.Env(dict(v), ms)
        sub_ids = dict(v)
        for n, b in bind.items():
            sub_ids[n] = irsem.ev(build(b), irsem.Env(dict(v), ms))
        overlay = {}
        ranges = []
        clash = False
        for a, size, b in keyed:
            # the key was evaluated in the state; inner cells are already in the overlay
            addr = irsem.ev(build(a), irsem.Env(sub_ids, ms, overlay))
            val = irsem.ev(build(b), plain)
            rng = set((addr + i) & 0xFFFFFFFF for i in range(size // 8))
            for r0, a0 in ranges:
                if r0 & rng and a0 != (a, size):
                    clash = True
            ranges.append((rng, (a, size)))
            for i in range(size // 8):
                overlay[(addr + i) & 0xFFFFFFFF] = (val >> (8 * i)) & 0xFF
        # an unbound read that happens to alias a bound cell under this valuation: the machine treats
        # symbolic addresses as distinct by design, so the valuation is outside the domain
        for ua, usize in unbound:
            try:
                uaddr = irsem.ev(build(ua), irsem.Env(sub_ids, ms, overlay))
            except Exception:
                clash = True
                break
            if any(((uaddr + i) & 0xFFFFFFFF) in overlay for i in range(usize // 8)):
                clash = True
        if clash:
            continue
        ok_vals += 1
        try:
            A = irsem.ev(build(e_s), irsem.Env(sub_ids, ms, overlay))
        except (ZeroDivisionError, irsem.Undefined):
            continue
        # bound identifiers must not survive in r: give them values unrelated to their bindings
        res_ids = dict(v)
        for n in bind:
            res_ids[n] = irsem._h("poison", n, ms)
        try:
            B = irsem.ev(r, irsem.Env(res_ids, ms, overlay))
        except irsem.Undefined:
            continue
        except Exception as ex:
            return (("result", "illformed"), "%s: %s evaluating result %s" % (type(ex).__name__, ex, r))
        if A != B:
            return (("value", topop(e_s), arity_class(e_s), mix(case)), "%s in state %s evaluates to %s; values 0x%X (expected) vs 0x%X under %s" % (
                sshow(e_s), show_state(case), r, A, B, v))
    if info is not None:
        info["vals"] = ok_vals
    # all-constant inputs: the result is a constant
    if ids and all(n in bind and bind[n][0] == "int" for n in ids) and len(cells) == count_mems(e_s) and all(c[1][0] == "int" for c in cells) \
            and all_interpreted(e_s) and ok_vals:
        rr = r if r.__class__.__name__ == "ExprInt" else expr_simp(r)
        if rr.__class__.__name__ != "ExprInt":
            return (("constant", "not_folded", fold_cause(rr)), "%s with all-constant state %s evaluates to %s, not a constant" % (sshow(e_s), show_state(case), r))
    return None


def mixed_rotate_chain(s):
    """does s contain (X rot c1) rot c2 with counts of different widths (the open rotate-merge finding)?  The chain is read both
    as written and as the rule sees it: (A <<< c1)[0:16] or B ^ B ^ (A <<< c1) are (A <<< c1) after simplification"""
    for p in paths(s):
        for simplify in (False, True):
            n = get_at(s, p)
            ws = set()
            while n[0] == "op" and n[1] in ("<<<", ">>>") and len(n[2]) == 2:
                ws.add(swidth(n[2][1]))
                n = n[2][0]
                if simplify:
                    try:
                        from miasmx.expression.expression_helper import expr_simp
                        n = to_script(expr_simp(build(n)))
                    except Exception:
                        pass
            if len(ws) > 1:
                return True
    return False


def count_mems(s):
    ms = []
    for p in paths(s):
        n = get_at(s, p)
        if n[0] == "mem" and n not in ms:
            ms.append(n)
    return len(ms)


def fold_cause(rr):
    odd = []
    def f(x):
        if x.__class__.__name__ == "ExprSlice" and x.arg.__class__.__name__ == "ExprInt" and (x.stop - x.start) not in (1, 8, 16, 32, 64):
            odd.append(x)
    irsem.walk(rr, f)
    if odd:
        return "slice of a constant with a width that has no integer type"
    return resid_op(rr)


def resid_op(r):
    c = r.__class__.__name__
    if c == "ExprOp":
        return "op:" + r.op
    return c


def topop(s):
    return ("op:" + s[1]) if s[0] == "op" else s[0]


def arity_class(s):
    if s[0] == "op":
        return "n%d" % min(len(s[2]), 4)
    return "-"


def mix(case):
    ks = set()
    ids = sids(case["e"])
    for n in ids:
        if n in case["bind"]:
            ks.add("c" if case["bind"][n][0] == "int" else "s")
        else:
            ks.add("a")
    for c in case["cells"]:
        ks.add("mc" if c[1][0] == "int" else "ms")
    return "".join(sorted(ks))


def show_state(case):
    d = dict((n, sshow(b)) for n, b in case["bind"].items())
    for m, b in case["cells"]:
        d[sshow(m)] = sshow(b)
    return d


def w_run(run, st_, k, n):
    def orc(case):
        info = {}
        r = oracle(case, info)
        if isinstance(r, str):
            st_.exclude(r)
            return None
        e = case["e"]
        st_.klass("top_" + topop(e))
        st_.klass("mix_" + mix(case))
        if r is None and (case["bind"] or case["cells"]):
            st_.nt((sshow(e), repr(sorted(case["bind"])), len(case["cells"])))
            st_.sample({"expr": sshow(e), "state": show_state(case)})
        return r
    runner.hyp_drive(run, st_, st.one_of(cases(), cases(), cases(), cases(), cases(), cases(), cases(), cases(), cases(), cases(), cases(), cases(), cases(), cases(), partial_write_cases(), partial_write_cases(), bit_scan_cases()), orc, n, run.seed * 1000 + k)


def main(run):
    run.rule = ("Hypothesis: well-typed expressions (random trees, 3/4-ary operators, lifter-only operators) x states mixing constant, symbolic and absent bindings for "
                "identifiers and same-address memory cells x 6 valuations of the free symbols. non-trivial = at least one identifier or cell is bound; distinct = (expression, bound names, cells)")
    run.assumptions = ["vlib/irsem.py is the value semantics", "fresh Expr objects and a fresh machine per case; the shared default eval_cache of get_mem_overlapping is cleared before each case (C12's subject)",
                       "reads that partially overlap a bound cell are excluded (C07's subject)", "division operators are judged only where the divisor is non-zero"]
    runner.pmap(run, w_run, [run.pick(1500, 30000)] * 16)


def replay(run, case):
    r = oracle(case)
    return None if isinstance(r, str) else r
