"""C19 - equivalent spellings of an assembly line assemble identically.

For every accepted line built from a generated spec (vlib/asmgen.py), each presentation-only rewrite of the same spec
(letter case of registers / size keywords, white space, number base, 32-bit sign convention, order of memory terms when the
base/index roles are unambiguous, displacement outside the brackets, '%' register prefix, st vs st(0)) and the AT&T
transliteration must yield the same SET of candidate encodings; an exception on one spelling only is a difference.
"""
from vlib import runner, asmgen
from checks.c02_asm import collect, mn_class


def run_asm(att, line):
    from miasmx.arch.ia32_arch import x86mnemo
    try:
        r = x86mnemo.asm_att(line) if att else x86mnemo.asm(line)
    except Exception as ex:
        return ("exc", type(ex).__name__)
    if not isinstance(r, list):
        return ("other", repr(r)[:40])
    return ("ok", frozenset(bytes(x) for x in r))


def applicable(name, sp):
    ops = sp["ops"]
    mems = [o for o in ops if o[0] == "mem"]
    if name in ("register-case", "percent-prefix"):
        return any(o[0] == "reg" for o in ops) or any(m[3] or m[4] or m[2] for m in mems)
    if name == "keyword-case":
        return any(m[1] for m in mems)
    if name in ("hexadecimal", "hexadecimal-0X", "leading-zeros"):
        return any(o[0] in ("imm", "rel") and o[1] >= 0 for o in ops) or any(m[6] for m in mems)
    if name == "decimal-leading-zero":
        has = lambda v: "8" in str(abs(v)) or "9" in str(abs(v))
        return any(o[0] in ("imm", "rel") and has(o[1]) for o in ops) or any(m[6] and has(m[6]) for m in mems)
    if name.startswith("minus-one"):
        return any(o[0] == "imm" and o[1] < 0 and c == "i32" for o, c in zip(ops, sp["shape"])) or any(m[6] < 0 for m in mems)
    if name in ("memory-term-order", "scale-before-index", "displacement-outside-brackets"):
        for m in mems:
            unamb = not (m[3] and m[4] and m[5] == 1)
            if name == "scale-before-index" and m[4] and m[5] != 1:
                return True
            if name == "memory-term-order" and unamb and ((m[3] and m[4]) or ((m[3] or m[4]) and m[6] > 0)):
                return True
            if name == "displacement-outside-brackets" and unamb and (m[3] or m[4]) and m[6] > 0:
                return True
        return False
    if name.startswith("zero-displacement"):
        return any((m[3] or m[4]) and m[6] == 0 and not (m[3] and m[4] and m[5] == 1) for m in mems)
    if name in ("st-as-st(0)", "ST-uppercase"):
        return any(o == ("reg", "st") for o in ops) or (name == "ST-uppercase" and any(o[0] == "reg" and o[1].startswith("st(") for o in ops))
    return True


def judge(sp):
    base = asmgen.intel(sp)
    r0 = run_asm(False, base)
    if r0[0] != "ok":
        return "excluded", []
    out = []
    for name, opt in asmgen.REWRITES.items():
        if not applicable(name, sp):
            continue
        line = asmgen.intel_variant(sp, opt)
        if " ".join(line.split()) == " ".join(base.split()) and name not in ("spacing", "tab-after-comma"):
            continue
        r = run_asm(False, line)
        if r != r0:
            kind = ("exception:" + r[1]) if r[0] == "exc" else "candidate-sets-differ"
            out.append(((name, kind, reg_classes(sp)), "asm(%r) = %s but asm(%r) = %s" % (base, show(r0), line, show(r)), {"spec": sp, "rewrite": name}))
        else:
            out.append((None, name, line))
    al = asmgen.att(sp)
    if al is not None:
        r = run_asm(True, al)
        if r != r0:
            kind = ("exception:" + r[1]) if r[0] == "exc" else "candidate-sets-differ"
            from checks.c03_roundtrip import spec_features
            ft = spec_features(sp)
            ic = imm_class(sp)
            cls = ft or ic or mn_class(sp["mn"])
            if kind == "candidate-sets-differ" and r0[1] and r[1] and all(x[:1] == b"\x3e" for x in r[1]) and set(x[1:] for x in r[1]) == set(r0[1]):
                # a mechanism, not a feature of the input: the Intel front end drops an explicit ds: override ("DS is implicit"), the AT&T one keeps it
                cls = "intel-drops-explicit-ds-override"
            elif kind == "candidate-sets-differ" and ic:
                cls = ic          # the immediate classes are listed with their operand width and direction (below), whatever the memory operand looks like
            elif ft and kind == "candidate-sets-differ":
                cls = "%s/%s/%s" % (ft, mn_class(sp["mn"]), "+".join(sp["shape"]))      # the feature alone would hide any later defect that involves it
            if kind == "candidate-sets-differ" and str(cls).split("+")[0] in ("negative-immediate", "immediate-with-top-bit-set", "immediate-out-of-range"):
                # which side lacks candidates, and at which operand width: a listed difference of one kind must not cover another
                a, b_ = set(r0[1]), set(r[1])
                cls = "%s/w%s/%s" % (cls, sp.get("w") or "-", "att-empty" if not b_ else "intel-empty" if not a else "att-lacks" if b_ < a else "intel-lacks" if a < b_ else "both-differ")
            out.append((("att-transliteration", kind, cls if (kind != "exception:ValueError" or ft) else sp["mn"]),
                        "asm(%r) = %s but asm_att(%r) = %s" % (base, show(r0), al, show(r)), {"spec": sp, "rewrite": "att"}))
        else:
            out.append((None, "att-transliteration", al))
    return "ok", out


def reg_classes(sp):
    """which register files / operand kinds a spec mentions (spelling failures cluster on them)"""
    cl = set()
    for o in sp["ops"]:
        if o[0] == "reg":
            r = o[1]
            cl.add("segment" if r in asmgen.SREG else "st" if r.startswith("st") else "mmx/xmm" if r.startswith(("mm", "xmm")) else "general")
        elif o[0] == "mem":
            cl.add("memory")
            if o[2]:
                cl.add("segment")
    return "+".join(sorted(cl))


def imm_class(sp):
    from checks.c02_asm import IMM_W
    for o, c in zip(sp["ops"], sp["shape"]):
        if o[0] == "imm":
            w = IMM_W.get(c, sp.get("w") or 32)
            v = o[1]
            if not (-(1 << (w - 1)) <= v < (1 << w)):
                return "immediate-out-of-range"
            if v < 0:
                return "negative-immediate"
            if v >= 1 << (w - 1):
                return "immediate-with-top-bit-set"
    return ""


def show(r):
    if r[0] == "ok":
        return sorted(x.hex() for x in r[1])[:6]
    return "%s %s" % (r[0], r[1])


def w_run(run, st_, k, n):
    for sp in collect(asmgen.spec(), n, run.seed * 1000 + k):
        state, res = judge(sp)
        if state == "excluded":
            st_.ev()
            st_.exclude("base_line_rejected")
            continue
        for r in res:
            st_.ev()            # one evaluation = one (base line, equivalent spelling) comparison of candidate sets
            if r[0] is None:
                st_.klass("same:" + r[1])
                st_.nt((r[1], r[2]))
                st_.sample({"base": asmgen.intel(sp), "rewrite": r[1], "variant": r[2]})
            else:
                st_.klass("differs:" + r[0][0])
                sig = runner.norm_sig(r[0])
                if not any(f[0] == sig for f in st_.failures):
                    st_.fail(sig, r[1], r[2])


# ---- symbolic displacements: the only place where a NAME and a number meet in one operand -------------------------------------
def sym_spellings(base, sym, n):
    """equivalent Intel spellings of the address base + sym + n (base: 'ebx' or 'ebx+esi*2'); the first one is the reference"""
    sn = ("+%d" % n) if n > 0 else (("-%d" % -n) if n < 0 else "")
    out = [("inside:base+sym+n", "[%s+%s%s]" % (base, sym, sn))]
    if n:
        out.append(("inside:base+n+sym", "[%s%s+%s]" % (base, sn, sym)))
        out.append(("inside:sym+base+n", "[%s+%s%s]" % (sym, base, sn)))
        out.append(("outside:n+sym[base]", "%d+%s[%s]" % (n, sym, base)))
        out.append(("outside:hex n+sym[base]", "%s0x%x+%s[%s]" % ("-" if n < 0 else "", abs(n), sym, base)))
    else:
        out.append(("inside:sym+base", "[%s+%s]" % (sym, base)))
        out.append(("outside:sym[base]", "%s[%s]" % (sym, base)))
    return out


def sym_lines():
    out = []
    for mn, pre, post in (("lea", "eax, ", ""), ("mov", "ecx, DWORD PTR ", ""), ("add", "DWORD PTR ", ", 1"), ("push", "DWORD PTR ", ""), ("mov", "BYTE PTR ", ", dl"), ("cmp", "WORD PTR ", ", ax")):
        for base in ("ebx", "ebp", "esi", "ebx+esi*2", "eax+ecx*4"):
            for sym in ("a", "foo", "_x1"):
                for n in (0, 1, -1, 8, -8, 127, -128, 128, -129, 0x1000, -0x1000, 0x7FFFFFFF, -0x80000000):
                    out.append((mn, pre, post, base, sym, n))
    return out


def judge_sym(item):
    from miasmx.arch.ia32_arch import x86mnemo
    mn, pre, post, base, sym, n = item

    def A(l):
        try:
            return ("ok", frozenset(bytes(x) for x in x86mnemo.asm(l)))
        except Exception as e:
            return ("raises", type(e).__name__)
    sp = sym_spellings(base, sym, n)
    ref_line = "%s %s%s%s" % (mn, pre, sp[0][1], post)
    ref = A(ref_line)
    if ref[0] != "ok" or not ref[1]:
        return "excluded", []
    res = []
    for kind, text in sp[1:]:
        line = "%s %s%s%s" % (mn, pre, text, post)
        r = A(line)
        if r == ref:
            res.append((None, kind, line))
        else:
            res.append((("symbolic-displacement", kind, "negative" if n < 0 else "positive"),
                        "'%s' assembles to %s but the equivalent '%s' to %s" % (ref_line, show(ref), line, show(r)), {"sym": list(item)}))
    return "ok", res


def w_sym(run, st_, k, items):
    with runner.quiet():
        for item in items:
            state, res = judge_sym(item)
            if state == "excluded":
                st_.ev()
                st_.exclude("symbolic_base_line_rejected")
                continue
            for r in res:
                st_.ev()
                if r[0] is None:
                    st_.klass("same:symbolic " + r[1])
                    st_.nt((r[1], r[2]))
                else:
                    st_.klass("differs:" + r[0][0])
                    sig = runner.norm_sig(r[0])
                    if sig in run.known:
                        st_.known_hits[sig] += 1
                    elif not any(f[0] == sig for f in st_.failures):
                        st_.fail(sig, r[1], r[2])


def x87_lines():
    out = []
    for base in ("fadd", "fsub", "fsubr", "fmul", "fdiv", "fdivr"):
        for i in range(8):
            out += ["%s %%st(%d), %%st" % (base, i), "%s %%st, %%st(%d)" % (base, i), "%sp %%st, %%st(%d)" % (base, i), "%s %%st(%d)" % (base, i)]
        out += ["%s %%st, %%st" % base, "%s %%st(0), %%st(0)" % base]
    for mn in ("fxch", "fcom", "fcomp", "fucom", "fucomp", "fld", "fst", "fstp", "ffree", "fcomi", "fucomip"):
        for i in (0, 1, 7):
            out.append("%s %%st(%d)" % (mn, i) if mn not in ("fcomi", "fucomip") else "%s %%st(%d), %%st" % (mn, i))
    return out


def x87_transliteration(run):
    """AT&T x87 register forms and their Intel transliteration must yield the same candidate set.  The transliteration is not written by
    hand (the AT&T syntax exchanges fsub/fsubr and fdiv/fdivr when the destination is st(i)): GNU as assembles the AT&T line and objdump
    prints the Intel text of those bytes - the tool chain that defines both syntaxes says which Intel line the AT&T line is"""
    from vlib import refs
    lines = x87_lines()
    enc = refs.gas(lines, syntax="att", scratch=run.scratch)
    ok = [(l, e) for l, e in zip(lines, enc) if e is not None]
    texts = refs.objdump([e for _, e in ok], syntax="intel", scratch=run.scratch)
    for (att, e), t in zip(ok, texts):
        run.ev()
        if t is None or t[0] != len(e):
            run.exclude("x87_reference_text_unavailable")
            continue
        intel = " ".join(t[1].replace(",", ", ").split())
        with runner.quiet():
            ri, ra = run_asm(False, intel), run_asm(True, att)
        if ri[0] != "ok" or not ri[1]:
            run.exclude("x87_intel_text_of_objdump_not_accepted")
            continue
        mn = att.split()[0]
        form = "st(0),st(0)" if att.count("%st(0)") + att.count("%st,") + int(att.endswith("%st")) >= 2 and "(" not in att.replace("%st(0)", "") else ("dst=st(i)" if att.rstrip().endswith(")") else "dst=st")
        if ra != ri:
            run.note(("att-transliteration-x87", mn, form, "exception:" + ra[1] if ra[0] == "exc" else "candidate-sets-differ"),
                     "asm(%r) = %s but asm_att(%r) = %s (GNU as: %s)" % (intel, show(ri), att, show(ra), e.hex()), {"x87": att})
        else:
            run.klass("x87_transliteration_ok")
            run.nt(("x87", att))


def main(run):
    run.rule = ("Hypothesis specs (vlib/asmgen.py) x %d presentation-only rewrites applied where they change the text and cannot change the meaning, plus the AT&T "
                "transliteration of the same spec; plus 3510 symbolic-displacement operands (base + name + number) in 3-5 equivalent spellings inside / outside the brackets; the candidate SETS are compared. non-trivial = a rewrite whose text differs from the base line; distinct = (rewrite, variant text)" % len(asmgen.REWRITES))
    run.assumptions = ["rewrites that can change meaning are not generated: two unscaled registers are never swapped, numbers never differ modulo the operand width, size keywords are never changed",
                       "lines whose base spelling is rejected are outside the domain"]
    runner.pmap(run, w_run, [run.pick(1200, 20000)] * 16)
    runner.pmap(run, w_sym, list(runner.chunks(sym_lines(), 80)))
    x87_transliteration(run)


def replay(run, case):
    if "x87" in case:
        class R(runner.Stats):
            pass
        r = R()
        r.scratch = run.scratch
        notes = []
        r.note = lambda sig, det, c: notes.append((runner.norm_sig(sig), det, c))
        x87_transliteration(r)
        for sig, det, c in notes:
            if c.get("x87") == case["x87"] and (run.want_sig is None or sig == run.want_sig):
                return (sig, det)
        return None
    if "sym" in case:
        with runner.quiet():
            state, res = judge_sym(tuple(case["sym"]))
        for r in res:
            if r[0] is not None and (run.want_sig is None or runner.norm_sig(r[0]) == run.want_sig):
                return (r[0], r[1])
        return None
    sp = case["spec"]
    sp["ops"] = [tuple(o) for o in sp["ops"]]
    with runner.quiet():
        state, res = judge(sp)
    for r in res:
        if r[0] is not None and (run.want_sig is None or runner.norm_sig(r[0]) == run.want_sig):
            return (r[0], r[1])
    return None
