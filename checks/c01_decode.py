"""C01 - x86 decoding agrees with the IA-32 instruction set.

Domain: the structured byte-string space of vlib/x86space.py (prefix set x opcode map x ModRM/SIB class x fill).
Oracle: GNU objdump (R1) with LLVM's decoder (R2) as arbiter; both texts and miasmX's Intel rendering go through
the notation-level normal form vlib/nf.py and are compared field by field.  A disagreement is reported only when
R1 and R2 agree with each other on length and normal form.  Strings rejected by a decoder, and strings whose
reference text carries a prefix without effect, are outside the domain (counted, never reported).
Also checked on every accepted string: instr.l bytes are instr.b and are a prefix of the input, and decoding
exactly those bytes alone gives the same length and text.
"""
import sys
from vlib import runner, x86space, refs, nf

LOCKABLE_1 = set([0x00, 0x01, 0x08, 0x09, 0x10, 0x11, 0x18, 0x19, 0x20, 0x21, 0x28, 0x29, 0x30, 0x31, 0x86, 0x87])
LOCKABLE_0F = set([0xab, 0xb3, 0xbb, 0xc0, 0xc1, 0xb0, 0xb1])


def split_prefixes(b):
    i = 0
    while i < len(b) and b[i] in (0x66, 0x67, 0xf0, 0xf2, 0xf3, 0x26, 0x2e, 0x36, 0x3e, 0x64, 0x65):
        i += 1
    return b[:i], b[i:]


def pnorm(b):
    """the same bytes with the legacy prefixes in a fixed order: the order of prefixes carries no meaning"""
    pfx, rest = split_prefixes(bytes(b))
    return bytes(sorted(pfx)) + rest


def dropped_prefix(b, cands):
    """'3e' when b without one of its prefix bytes is among the candidates (modulo prefix order), else None: a mechanism, not a feature of the input"""
    pfx, rest = split_prefixes(bytes(b))
    have = set(pnorm(x) for x in cands)
    for i in range(len(pfx)):
        if pnorm(pfx[:i] + pfx[i + 1:] + rest) in have:
            return "%02x" % pfx[i]
    return None


def lock_ok(b):
    """is a LOCK prefix architecturally allowed on these bytes? (memory destination of a lockable RMW row)"""
    pfx, rest = split_prefixes(b)
    if 0xf0 not in pfx:
        return True
    if len(rest) < 2:
        return False
    op = rest[0]
    if op == 0x0f:
        if len(rest) < 3:
            return False
        op2, mr = rest[1], rest[2]
        if (mr >> 6) == 3:
            return False
        if op2 in LOCKABLE_0F:
            return True
        if op2 == 0xba and ((mr >> 3) & 7) >= 5:
            return True
        if op2 == 0xc7 and ((mr >> 3) & 7) == 1:
            return True
        return False
    mr = rest[1]
    if (mr >> 6) == 3:
        return False
    reg = (mr >> 3) & 7
    if op in LOCKABLE_1:
        return True
    if op in (0x80, 0x81, 0x82, 0x83) and reg != 7:
        return True
    if op in (0xfe, 0xff) and reg in (0, 1):
        return True
    if op in (0xf6, 0xf7) and reg in (2, 3):
        return True
    return False


def row_key(b, l):
    """the opcode-table row a byte string selects: prefixes, opcode bytes, /digit, mod==3"""
    pfx, rest = split_prefixes(b[:l] if l else b)
    pf = "".join("%02x" % x for x in sorted(set(pfx)) if x in (0x66, 0xf2, 0xf3))
    if not rest:
        return (pf, "", "", "")
    if rest[0] == 0x0f and len(rest) > 1:
        if rest[1] in (0x38, 0x3a) and len(rest) > 2:
            opc, after = rest[:3], rest[3:]
        else:
            opc, after = rest[:2], rest[2:]
    else:
        opc, after = rest[:1], rest[1:]
    digit, mod3 = "", ""
    if after:
        digit = "/%d" % ((after[0] >> 3) & 7)
        mod3 = "reg" if (after[0] >> 6) == 3 else "mem"
    return (pf, opc.hex(), digit, mod3)


def dis_one(b):
    """-> (None | (l, text, bytes_ok, redecode_ok), exception name or None)"""
    from miasmx.arch.ia32_arch import x86mnemo
    try:
        i = x86mnemo.dis(b)
    except Exception as ex:
        return None, type(ex).__name__
    if i is None:
        return None, None
    try:
        txt = str(i)
    except Exception as ex:
        return None, "str:" + type(ex).__name__
    l = i.l
    bytes_ok = (bytes(i.b) == bytes(b[:l]))
    red = True
    try:
        # the rendering shows the decoded instruction: asking for it again (or for the other syntax in between) must not change it
        i.__str__(asm_format="att_syntax binutils")
        if str(i) != txt:
            red = False
    except Exception:
        pass
    try:
        j = x86mnemo.dis(bytes(b[:l]))
        if j is None or j.l != l or str(j) != txt:
            red = False
    except Exception:
        red = False
    return (l, txt, bytes_ok, red), None


def judge(b, mi, r1, r2, addr):
    """b: window; mi: (l, text, bytes_ok, redecode_ok); r1/r2: (len, text) or None from objdump / llvm (r2 may be None = not consulted)
    -> ('ok'|'excluded:<why>'|('fail', sig, detail))"""
    l, txt, bytes_ok, red = mi
    if not bytes_ok:
        return ("fail", ("raw-bytes", row_key(b, l)[1]), "dis(%s): instr.b is not the consumed prefix of the input" % b.hex())
    if not red:
        return ("fail", ("redecode",) + row_key(b, l)[:3], "dis(%s) reports length %d, but decoding exactly those bytes gives another result, or rendering the same object a second time differs" % (b.hex(), l))
    if r1 is None:
        return ("excluded:reference_no_line",)
    n1 = nf.parse(r1[1], addr, r1[0])
    if n1 is None:
        return ("excluded:reference_rejects",)
    if nf.superfluous(n1):
        return ("excluded:superfluous_prefix",)
    if not lock_ok(b):
        return ("excluded:lock_not_allowed",)
    nm = nf.parse(txt, None, None)
    if nm is None:
        return ("fail", ("unparsable-rendering", row_key(b, l)[1]), "dis(%s) renders as %r" % (b[:l].hex(), txt))
    opsize16 = 0x66 in split_prefixes(b)[0]
    d = None
    if l != r1[0]:
        d = ("length", "%d vs %d" % (l, r1[0]))
    else:
        d = nf.diff(nm, n1, opsize16)
    if d is None:
        return ("ok",)
    if d[0] == "prefix" and nm.mn != n1.mn and nf.canon_prefixes(nm) - nf.canon_prefixes(n1):
        # an F2/F3 prefix that miasmX prints as a (meaning-free) rep and that a later ISA extension turned into a
        # new instruction (tzcnt, lzcnt, ptwrite, ...): a superfluous prefix from miasmX's side of the domain
        return ("excluded:prefix_reinterpreted_by_later_isa",)
    if r2 is None:
        return ("need_arbiter", d)
    n2 = nf.parse(r2[1], addr, r2[0])
    if n2 is None:
        return ("excluded:reference_disagreement",)
    if r2[0] != r1[0] or nf.diff(n2, n1, opsize16) is not None:
        return ("excluded:reference_disagreement",)
    key = row_key(b, max(l, r1[0]))
    key = (key[0], key[1], nm.mn)          # the row: operand-size / mandatory prefixes, opcode bytes, mnemonic printed
    if d[0] == "string-operand":
        missing = sorted(set(x.split(":")[0] for x in n1.extra) - set(x.split(":")[0] for x in nm.extra))
        key = ("string instruction", "not rendered: " + "+".join(missing))
    return ("fail", ("decode", d[0]) + key, "%s: miasmX %d bytes %r, objdump %d bytes %r, llvm %r (%s)" % (
        b[:max(l, r1[0])].hex(), l, txt, r1[0], r1[1], r2[1].replace("\t", " "), d[1]))


def worker(run, st, k, chunk):
    mis = []
    for b in chunk:
        st.ev()
        mi, exc = dis_one(b)
        if exc:
            st.exclude("decoder_raises(C10)")
            continue
        if mi is None:
            st.exclude("miasmx_rejects")
            continue
        mis.append((b, mi))
    if not mis:
        return
    r1 = refs.objdump([b for b, _ in mis], scratch=run.scratch)
    pend = []
    for idx, ((b, mi), a) in enumerate(zip(mis, r1)):
        v = judge(b, mi, a, None, idx * refs.SLOT)
        if v[0] == "need_arbiter":
            pend.append((b, mi, a))
        else:
            tally(st, b, mi, v)
    if pend:
        r1b = refs.objdump([b for b, _, _ in pend], scratch=run.scratch)
        r2 = refs.llvm_objdump([b for b, _, _ in pend], scratch=run.scratch)
        for idx, ((b, mi, _), a, c) in enumerate(zip(pend, r1b, r2)):
            v = judge(b, mi, a, c if c is not None else (0, "<unknown>"), idx * refs.SLOT)
            tally(st, b, mi, v)


def tally(st, b, mi, v):
    if v[0] == "ok":
        st.klass("in_domain_agree")
        if "," in mi[1] or mi[1].strip().count(" ") > 0:
            st.nt(row_key(b, mi[0]))
            st.sample({"bytes": b[:mi[0]].hex(), "miasmx": " ".join(mi[1].split())})
    elif v[0].startswith("excluded"):
        st.exclude(v[0].split(":", 1)[1])
    elif v[0] == "fail":
        st.klass("in_domain_disagree")
        sig = runner.norm_sig(v[1])
        if not any(f[0] == sig for f in st.failures):
            st.fail(sig, v[2], b.hex())
        else:
            st.klass("further_cases_same_signature")


def all_cases(run):
    cs = set(x86space.cases(run.tier, run.seed))
    cs |= set(x86space.sib_grid()) | set(x86space.modrm_grid()) | set(x86space.segment_grid(*run.pick(((b"\x8b", b"\xff", b"\x0f\xb6"),), ()))) | set(x86space.x87_cases()) | set(x86space.control_flow_cases()) | set(x86space.boundary_value_cases())
    return sorted(cs)


def main(run):
    refs.need("objdump"); refs.need("llvm-objdump"); refs.need("objcopy")
    run.rule = ("enumeration: prefix set x opcode (1-byte, 0F, 0F38, 0F3A maps, x87) x ModRM class x SIB class x fill pattern, plus complete ModRM and SIB grids "
                "for representative rows and all control-transfer forms; each string decoded by miasmX, objdump and (on disagreement) llvm-objdump. "
                "non-trivial = in domain, agreeing, with at least one operand; distinct = (prefix set, opcode bytes, /digit, mod class)")
    run.assumptions = ["binutils objdump and LLVM's decoder, when they agree, define the IA-32 reading of a byte string",
                       "notation differences are removed only in vlib/nf.py; a size keyword that one side does not print is not compared",
                       "strings with a prefix that has no effect (as printed by objdump), LOCK on non-lockable forms, and strings rejected by a decoder are outside the domain"]
    cs = all_cases(run)
    runner.pmap(run, worker, runner.chunks(cs, 64))
    run.extra["windows_enumerated"] = len(cs)


def replay(run, case):
    b = bytes.fromhex(case)
    with runner.quiet():
        mi, exc = dis_one(b)
    if exc or mi is None:
        return None
    r1 = refs.objdump([b], scratch=run.scratch)[0]
    r2 = refs.llvm_objdump([b], scratch=run.scratch)[0]
    v = judge(b, mi, r1, r2 if r2 is not None else (0, "<unknown>"), 0)
    if v[0] == "fail":
        return (v[1], v[2])
    return None
