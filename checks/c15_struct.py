"""C15 - IR nodes obey structural laws: equality, hashing, copy, visit, substitution, canonize.

For a generated script s (all node kinds incl. segmented ExprMem and ExprAff):
  eq      three independent builds are pairwise ==, symmetric, not !=, with equal hashes and values
  mut     for a one-field mutation s' (name, size, constant, width, op, arity, order, slice bound, slot,
          segment, branches): == must be symmetric, and IF build(s) == build(s') THEN hashes are equal,
          widths are equal and the values agree on 8 valuations
  copy    c = e.copy(): c == e, hash equal, no node object (and no Compose args list) of c is shared with e
  visit   e.visit(lambda x: x) == e
  subst   for a map d from non-nested sub-expressions of e to expressions over fresh identifiers:
          e.replace_expr(d) == build(substitute(s, d)) (substitute written here, on scripts), equal values
  canon   canonize() preserves the value and is idempotent
"""
import sys
from hypothesis import strategies as st
from vlib import runner, irsem, exprgen
from vlib.exprgen import build, sshow, swidth, sids, paths, get_at, set_at

NV = 8


def values(e, ids, salt=0):
    out = []
    for v, ms in exprgen.fixed_valuations(ids, NV, salt):
        out.append(irsem.ev(e, irsem.Env(v, ms)))
    return out


def nodes_of(e):
    out = []
    irsem.walk(e, out.append)
    return out


def val_part(s):
    """the value-carrying parts of a script: [src] (+ address of a memory destination) for an assignment"""
    if s[0] == "aff":
        return [s[2]] + ([s[1][1]] if s[1][0] == "mem" else [])
    return [s]


def substitute(s, d):
    """simultaneous top-down substitution on scripts; d: list of (key script, value script)"""
    for k, v in d:
        if s == k:
            return v
    t = s[0]
    if t == "mem":
        return ["mem", substitute(s[1], d), s[2], substitute(s[3], d) if s[3] is not None else None]
    if t == "op":
        return ["op", s[1], [substitute(a, d) for a in s[2]]]
    if t == "cond":
        return ["cond", substitute(s[1], d), substitute(s[2], d), substitute(s[3], d)]
    if t == "slice":
        return ["slice", substitute(s[1], d), s[2], s[3]]
    if t == "compose":
        return ["compose", [[substitute(x, d), a, b] for x, a, b in s[1]]]
    if t == "aff":
        return ["aff", substitute(s[1], d), substitute(s[2], d)]
    return s


def substitute_bu(s, d):
    """simultaneous bottom-up substitution on scripts (children first, then the REBUILT node is looked up): the other reading of
    'find and replace sub-expressions'; it differs from the top-down one only for a key written in already-substituted form"""
    t = s[0]
    if t == "mem":
        n = ["mem", substitute_bu(s[1], d), s[2], substitute_bu(s[3], d) if s[3] is not None else None]
    elif t == "op":
        n = ["op", s[1], [substitute_bu(a, d) for a in s[2]]]
    elif t == "cond":
        n = ["cond", substitute_bu(s[1], d), substitute_bu(s[2], d), substitute_bu(s[3], d)]
    elif t == "slice":
        n = ["slice", substitute_bu(s[1], d), s[2], s[3]]
    elif t == "compose":
        n = ["compose", [[substitute_bu(x, d), a, b] for x, a, b in s[1]]]
    else:
        n = s
    for k, v in d:
        if n == k:
            return v
    return n


def exc_sig(law, ex):
    tb = sys.exc_info()[2]
    fn = "?"
    while tb is not None:
        if "miasmx" in tb.tb_frame.f_code.co_filename:
            fn = tb.tb_frame.f_code.co_name
        tb = tb.tb_next
    return (law, "raise", type(ex).__name__, fn)


def kinds(s):
    return s[0] if s[0] != "op" else "op"


def oracle(case):
    """case: dict(s=script, m=[kind, mutated script] or None, d=[[key, value], ...])"""
    s = case["s"]
    top = s[0]
    try:
        e1, e2, e3 = build(s), build(s), build(s)
    except Exception as ex:
        raise runner.Inconclusive("generator produced an unbuildable script %r: %s" % (s, ex))
    ids = sids(s)
    # -- eq
    try:
        if not (e1 == e2) or not (e2 == e1) or (e1 != e2) or not (e1 == e3) or not (e2 == e3) or not (e1 == e1):
            return (("eq", "rebuild_not_equal", top), "two builds of %s are not ==" % sshow(s))
        if hash(e1) != hash(e2):
            return (("eq", "rebuild_hash", top), "two builds of %s hash differently" % sshow(s))
    except Exception as ex:
        return (exc_sig("eq", ex), "%s: %s on %s" % (type(ex).__name__, ex, sshow(s)))
    # -- mut
    if case.get("m"):
        mk, ms_ = case["m"]
        try:
            em = build(ms_)
        except Exception:
            em = None
        if em is not None:
            try:
                ab, ba = (e1 == em), (em == e1)
                ne = (e1 != em)
            except Exception as ex:
                return (exc_sig("mut", ex), "%s: %s comparing %s with %s" % (type(ex).__name__, ex, sshow(s), sshow(ms_)))
            if bool(ab) != bool(ba):
                return (("mut", "asymmetric", mk, top), "%s == %s is %r but the converse is %r" % (sshow(s), sshow(ms_), ab, ba))
            if bool(ne) == bool(ab):
                return (("mut", "ne_inconsistent", mk, top), "%s vs %s: == gives %r and != gives %r" % (sshow(s), sshow(ms_), ab, ne))
            if ab:
                if hash(e1) != hash(em):
                    return (("mut", "equal_but_hash_differs", mk), "%s == %s but hashes differ" % (sshow(s), sshow(ms_)))
                if swidth(s) != swidth(ms_):
                    return (("mut", "equal_but_width_differs", mk), "%s == %s but widths are %d and %d" % (sshow(s), sshow(ms_), swidth(s), swidth(ms_)))
                allids = dict(ids)
                allids.update(sids(ms_))
                for p, q in zip(val_part(s), val_part(ms_)):
                    if values(build(p), allids) != values(build(q), allids):
                        return (("mut", "equal_but_value_differs", mk), "%s == %s but their values differ" % (sshow(s), sshow(ms_)))
    # -- identifiers that differ only in a flag == ignores (is_term: ia32_sem's init_eax is a terminal, a client's ExprId("init_eax") is not)
    if ids:
        try:
            et = build(s)
            irsem.walk(et, lambda n: setattr(n, "is_term", True) if n.__class__.__name__ == "ExprId" else None)
            if (e1 == et) and (et == e1):
                if hash(e1) != hash(et):
                    return (("eq", "equal_but_hash_differs", "is_term"), "%s built with is_term identifiers == the plain build, but the hashes differ" % sshow(s))
                if {e1: 1}.get(et) != 1 or et not in set([e1]):
                    return (("eq", "equal_but_lookup_fails", "is_term"), "%s: an equal expression built with is_term identifiers is not found in a dict / set keyed by the plain build" % sshow(s))
        except Exception as ex:
            return (exc_sig("eq", ex), "%s: %s comparing builds of %s that differ in is_term" % (type(ex).__name__, ex, sshow(s)))
    # -- copy
    try:
        c = e1.copy()
        if not (c == e1) or not (e1 == c) or hash(c) != hash(e1):
            return (("copy", "not_equal", top), "copy of %s is not equal to it" % sshow(s))
        mine = set(id(n) for n in nodes_of(e1))
        shared = [n for n in nodes_of(c) if id(n) in mine]
        if shared:
            return (("copy", "shared_node", shared[0].__class__.__name__), "copy of %s shares the node %s with its original" % (sshow(s), shared[0]))
        lists = set(id(n.args) for n in nodes_of(e1) if n.__class__.__name__ == "ExprCompose" and isinstance(n.args, list))
        for n in nodes_of(c):
            if n.__class__.__name__ == "ExprCompose" and isinstance(n.args, list) and id(n.args) in lists:
                return (("copy", "shared_list", "ExprCompose"), "copy of %s shares a Compose argument list" % sshow(s))
        for p in val_part(s):
            pass
    except Exception as ex:
        return (exc_sig("copy", ex), "%s: %s copying %s" % (type(ex).__name__, ex, sshow(s)))
    # -- visit
    try:
        v = e1.visit(lambda x: x)
        if not (v == e1) or not (e1 == v):
            return (("visit", "identity_not_equal", top), "visit(identity) of %s gives %s" % (sshow(s), v))
    except Exception as ex:
        return (exc_sig("visit", ex), "%s: %s visiting %s" % (type(ex).__name__, ex, sshow(s)))
    # -- subst
    d = case.get("d") or []
    if d:
        try:
            dct = dict((build(k), build(v)) for k, v in d)
            r = build(s).replace_expr(dct)
        except Exception as ex:
            return (exc_sig("subst", ex), "%s: %s replacing in %s" % (type(ex).__name__, ex, sshow(s)))
        if case.get("rk"):
            # a key in already-substituted form: both readings of simultaneous substitution are accepted (top-down: the key never
            # matches; bottom-up: the rebuilt parent matches), anything else is not a substitution
            alts = [substitute(s, d), substitute_bu(s, d)]
            if not any(r == build(a) for a in alts):
                return (("subst", "rebuilt_key", top), "%s with %s: replace_expr gives %s, which is neither the top-down (%s) nor the bottom-up (%s) simultaneous substitution" % (
                    sshow(s), [(sshow(k), sshow(v)) for k, v in d], r, sshow(alts[0]), sshow(alts[1])))
            want_s = alts[0] if r == build(alts[0]) else alts[1]
        else:
            want_s = substitute(s, d)
        want = build(want_s)
        ids2 = sids(want_s)
        try:
            same = (r == want)
            for p, q in zip(val_part(want_s), val_part(exprgen.to_script(r))) if same is not None else []:
                a, b = values(build(p), ids2), values(build(q), ids2)
                if a != b:
                    kk = sorted(set(k[0] for k, _ in d))
                    return (("subst", "value", top, "+".join(kk)), "%s with %s: replace_expr gives %s, substitution gives %s (values differ)" % (
                        sshow(s), [(sshow(k), sshow(v)) for k, v in d], r, sshow(want_s)))
            if not same:
                kk = sorted(set(k[0] for k, _ in d))
                return (("subst", "structure", top, "+".join(kk)), "%s with %s: replace_expr gives %s, substitution gives %s" % (
                    sshow(s), [(sshow(k), sshow(v)) for k, v in d], r, sshow(want_s)))
        except irsem.Unsupported:
            pass
    # -- expressions the library itself produces are IR expressions too: each must be equal to, hash like and be found by an independent
    #    rebuild of its own structure (a node edited in place after construction would keep a stale hash)
    if top != "aff":
        from miasmx.expression.expression_helper import expr_simp
        made = []
        for how, f in (("expr_simp", lambda: expr_simp(build(s))), ("copy", lambda: build(s).copy()), ("visit", lambda: build(s).visit(lambda x: x)),
                       ("canonize", lambda: build(s).canonize())):
            try:
                made.append((how, f()))
            except Exception:
                continue       # exceptions are judged by the laws above / by C05
        for how, r in made:
            try:
                r2 = build(exprgen.to_script(r))
            except Exception:
                continue
            try:
                if (r == r2) and (r2 == r):
                    if hash(r) != hash(r2):
                        return (("derived", "equal_but_hash_differs", how), "the result of %s on %s is == to a rebuild of its own structure (%s), but their hashes differ" % (how, sshow(s), r))
                    if {r2: 1}.get(r) != 1 or r not in set([r2]) or {r: 1}.get(r2) != 1:
                        return (("derived", "equal_but_lookup_fails", how), "the result of %s on %s is not found in a dict / set keyed by an equal rebuild (%s)" % (how, sshow(s), r))
                elif how != "expr_simp":
                    pass
            except Exception as ex:
                return (exc_sig("derived", ex), "%s: %s comparing the result of %s on %s with its rebuild" % (type(ex).__name__, ex, how, sshow(s)))
    # -- canon
    try:
        cz = build(s).canonize()
        cz2 = cz.canonize()
    except Exception as ex:
        return (exc_sig("canon", ex), "%s: %s canonizing %s" % (type(ex).__name__, ex, sshow(s)))
    if top != "aff":
        if irsem.width(cz) != swidth(s) or values(cz, ids) != values(e1, ids):
            return (("canon", "value", worst_op(s)), "canonize(%s) = %s has another value" % (sshow(s), cz))
    if not (cz2 == cz):
        return (("canon", "not_idempotent", top), "canonize is not idempotent on %s: %s then %s" % (sshow(s), cz, cz2))
    return None


def worst_op(s):
    """for the signature of a canonize failure: the set of non-commutative operators present"""
    ops = set()
    def f(x):
        if x[0] == "op" and x[1] not in exprgen.ASSOC and len(x[2]) > 1:
            ops.add(x[1] if x[1] in ("-", "<<", ">>", "a>>", "<<<", ">>>", "==") else "other")
        for p in paths(x)[1:2]:
            pass
    for p in paths(s):
        f(get_at(s, p))
    return "+".join(sorted(ops)) or "none"


FRESH = {1: "r1", 8: "r8", 16: "r16", 32: "r32", 64: "r64"}


@st.composite
def fresh_value(draw, w):
    """an expression of width w over identifiers that occur in no generated expression"""
    base = ["id", "r%d" % w, w]
    c = draw(st.integers(0, 3))
    if c == 0 or w == 1:
        return base
    if c == 1:
        return ["op", "+", [base, ["int", w, draw(st.integers(0, 255)) & ((1 << w) - 1)]]] if w in (8, 16, 32, 64) else base
    if c == 2 and w in (8, 16, 32, 64):
        return ["op", "^", [base, ["id", "s%d" % w, w]]]
    return ["id", "s%d" % w, w]


@st.composite
def more_mutation(draw, s):
    """mutations that change a width or a flag (on top of exprgen.mutate's width-preserving ones)"""
    ps = [p for p in paths(s) if get_at(s, p)[0] in ("id", "int", "mem", "regid", "compose", "slice")]
    if not ps:
        return None
    p = draw(st.sampled_from(ps))
    n = get_at(s, p)
    if n[0] == "id":
        c = draw(st.sampled_from(["size", "is_reg"]))
        if c == "size":
            return ["idsize", set_at(s, p, ["id", n[1], draw(st.sampled_from([w for w in (1, 8, 16, 32, 64) if w != n[2]]))])]
        return ["is_reg", set_at(s, p, ["regid", n[1], n[2]])]
    if n[0] == "int":
        w2 = draw(st.sampled_from([w for w in (1, 8, 16, 32, 64) if w != n[1]]))
        return ["intsize", set_at(s, p, ["int", w2, n[2] & ((1 << w2) - 1)])]
    if n[0] == "compose":
        parts = n[1]
        if len(parts) >= 2 and draw(st.booleans()):
            return ["slots-", set_at(s, p, ["compose", parts[:-1]])]
        last = parts[-1]
        return ["slots+", set_at(s, p, ["compose", parts + [[last[0], last[2], last[2] + (last[2] - last[1])]]])]
    if n[0] == "slice":
        if n[3] - n[2] >= 2:
            return ["slicestop", set_at(s, p, ["slice", n[1], n[2], n[3] - 1])]
        return None
    if n[0] == "mem":
        return ["memsize", set_at(s, p, ["mem", n[1], draw(st.sampled_from([w for w in (8, 16, 32, 64) if w != n[2]])), n[3]])]
    return None


@st.composite
def cases(draw):
    w = draw(st.sampled_from(exprgen.WIDTHS))
    s = draw(exprgen.expr(w, 3))
    if draw(st.integers(0, 4)) == 0:
        # an instance of a rewrite-rule template (adjacent slices under a Compose, nested slices, ...): the shapes on which the simplifier
        # rebuilds or merges nodes
        from vlib import rulegen
        from checks.c05_simp import sub_general, kint_general
        s = draw(rulegen.rules_strategy([8, 16, 32, 64], sub_general, kint_general))[1]
        w = swidth(s)
    if w in exprgen.WIDTHS and draw(st.integers(0, 5)) == 0:
        # an assignment: destination identifier or memory cell
        if w >= 8 and draw(st.booleans()):
            dst = ["mem", draw(exprgen.expr(32, 1, mem=False)), w, draw(st.sampled_from(exprgen.SEGS))]
        else:
            dst = draw(exprgen.ident(w))
        s = ["aff", dst, s]
    m = None
    c = draw(st.integers(0, 3))
    if c <= 1:
        k, ms_ = draw(exprgen.mutate(s))
        if k is not None and ms_ != s:
            m = [k, ms_]
    elif c == 2:
        m = draw(more_mutation(s))
    # replacement map over non-nested sub-expressions
    d = []
    ps = [p for p in paths(s) if p and not (s[0] == "aff" and p[0] == (1,) and len(p) == 1)]
    if ps:
        chosen = []
        for p in draw(st.lists(st.sampled_from(ps), min_size=0, max_size=3)):
            flat = [i for sel in p for i in sel]
            if any(flat[:len(q)] == q or q[:len(flat)] == flat for q in chosen):
                continue
            chosen.append(flat)
            k = get_at(s, p)
            if any(k == kk for kk, _ in d):
                continue
            d.append([k, draw(fresh_value(swidth(k)))])
        # keys must not occur inside one another
        d = [kv for kv in d if not any(kv[0] != o[0] and contains(o[0], kv[0]) for o in d)]
    if s[0] != "aff" and draw(st.integers(0, 3)) == 0:
        # a map whose values mention other keys (swap, rotation, chain) over identifiers: substitution is simultaneous
        byw = {}
        for n_, w_ in sorted(sids(s).items()):
            byw.setdefault(w_, []).append(n_)
        groups = [(w_, ns) for w_, ns in sorted(byw.items()) if len(ns) >= 2]
        if groups:
            w_, ns = draw(st.sampled_from(groups))
            ns = draw(st.permutations(ns))[:draw(st.integers(2, 3))]
            kind = draw(st.sampled_from(["rotation", "chain"]))
            if kind == "rotation":
                d = [[["id", a, w_], ["id", ns[(i + 1) % len(ns)], w_]] for i, a in enumerate(ns)]
            else:
                d = [[["id", a, w_], (["op", "^", [["id", ns[i + 1], w_], ["id", "r%d" % w_, w_]]] if i + 1 < len(ns) else draw(fresh_value(w_)))] for i, a in enumerate(ns)]
    rk = False
    if s[0] != "aff" and draw(st.integers(0, 4)) == 0:
        # a key written in already-substituted form: {a: v1, parent(a)[a := v1]: v2}; the rebuilt parent is a transient node
        leafps = [p for p in paths(s) if len(p) >= 2 and get_at(s, p)[0] == "id"]
        if leafps:
            p = draw(st.sampled_from(leafps))
            a, par = get_at(s, p), get_at(s, p[:-1])
            v1 = ["id", "s%d" % a[2], a[2]]
            wp = swidth(par)
            d = [[a, v1], [substitute(par, [(a, v1)]), ["id", "r%d" % wp, wp]]]
            rk = True
    return {"s": s, "m": m, "d": d, "rk": rk}


def contains(big, small):
    return any(get_at(big, p) == small for p in paths(big))


def w_run(run, st_, k, n):
    def orc(case):
        s = case["s"]
        st_.klass("top_" + s[0])
        if case["m"]:
            st_.klass("mutation_" + case["m"][0])
        st_.klass("map_size_%d" % len(case["d"]))
        r = oracle(case)
        if r is None and (case["d"] or case["m"]):
            st_.nt(sshow(s) + repr(case["m"] and case["m"][0]) + repr(len(case["d"])))
            st_.sample({"expr": sshow(s), "mutation": case["m"] and [case["m"][0], sshow(case["m"][1])],
                        "map": [[sshow(a), sshow(b)] for a, b in case["d"]]})
        return r
    runner.hyp_drive(run, st_, cases(), orc, n, run.seed * 1000 + k)


def main(run):
    run.rule = ("Hypothesis: well-typed scripts of all node kinds (incl. segmented ExprMem, ExprAff) x one-field mutation x replacement map over "
                "non-nested sub-expressions with values over fresh identifiers; 8 valuations per value comparison. non-trivial = the case carries a "
                "mutation or a non-empty replacement map; distinct = (expression text, mutation kind, map size)")
    run.assumptions = ["vlib/irsem.py is the value semantics", "replacement values use identifiers that occur in no generated expression (bottom-up and simultaneous substitution coincide), except for maps over identifiers only, whose values may mention other keys (swap, rotation, chain): there substitution is simultaneous",
                       "the destination of an assignment is never a replacement key"]
    n = run.pick(1500, 30000)
    runner.pmap(run, w_run, [n] * 16)


def replay(run, case):
    return oracle(case)
