"""C11 - every decodable instruction with lifted semantics lifts to well-typed IR.

Domain: the structured byte space of vlib/x86space.py (with and without 0x66 / 0x67), restricted to strings the
disassembler accepts and whose mnemonic is in the lifter's dispatch table (or uses the MMX fallback).
Oracle: vlib/irtype.py, an independent well-formedness checker; lifting must not raise.
"""
import sys, re
from vlib import runner, x86space, irtype
from checks.c01_decode import split_prefixes


def liftable(i):
    from miasmx.arch.ia32_sem import mnemo_func
    return i.m.name in mnemo_func or "#" in i.m.name


def shape_of(i):
    """operand shape of a decoded instruction, for the signature: kinds of the operands + sizes"""
    from miasmx.arch.ia32_arch import is_reg, is_imm, is_address
    ks = []
    for a in i.arg:
        try:
            if is_address(a):
                ks.append("m")
            elif is_imm(a):
                ks.append("i")
            elif is_reg(a):
                ks.append("r")
            else:
                ks.append("?")
        except Exception:
            ks.append("?")
    return "".join(ks)


def opcode_of(b, l):
    """the opcode bytes (and /digit for group opcodes) of the row: part of every ill-formedness signature, so that a listed defect
    of one row of a mnemonic does not cover another row of the same mnemonic"""
    from checks.c01_decode import row_key
    k = row_key(b, l)
    groups = ("80", "81", "82", "83", "8f", "c0", "c1", "c6", "c7", "d0", "d1", "d2", "d3", "f6", "f7", "fe", "ff", "0f00", "0f01", "0fba", "0fc7", "0f71", "0f72", "0f73", "0fae",
              "d8", "d9", "da", "db", "dc", "dd", "de", "df")
    return k[1] + (k[2] if k[1] in groups else "")


PARENT = {}
for _r in "abcd":
    for _n in (_r + "l", _r + "h", _r + "x", "e" + _r + "x"):
        PARENT[_n] = "e" + _r + "x"
for _r in ("si", "di", "sp", "bp"):
    PARENT[_r] = PARENT["e" + _r] = "e" + _r
for _r in ("es", "cs", "ss", "ds", "fs", "gs"):
    PARENT[_r] = _r


def operand_registers(t):
    """names (as the lifter spells destinations) of the registers written out in the rendered instruction: a finding about one of them
    is a finding about 'the operand', whichever register the instance happens to use; a finding about any other location (a flag, an
    implicit register) keeps the location's name in its signature"""
    out = set()
    for tok in re.findall(r"[a-z]+[0-9]*(?:\([0-7]\))?", t.split(" ", 1)[1] if " " in t else ""):
        if tok in PARENT:
            out.add(PARENT[tok])
        elif re.match(r"^(x?mm[0-7]|[cd]r[0-7])$", tok):
            out.add(tok)
        elif re.match(r"^st(\([0-7]\)|[0-7])?$", tok):
            out.add("float_st%s" % (re.sub(r"[^0-7]", "", tok) or "0"))
    return out


def text(i):
    try:
        return " ".join(str(i).split())
    except Exception as ex:          # rendering crashes are C10's subject
        return "<str() raises %s>" % type(ex).__name__


def judge(b, st=None):
    from miasmx.arch.ia32_arch import x86mnemo
    from miasmx.tools import emul_helper
    from miasmx.tools.modint import uint32
    from miasmx.expression.expression import ExprInt
    try:
        i = x86mnemo.dis(b)
    except Exception:
        return "excluded:decoder_raises(C10)"
    if i is None:
        return "excluded:miasmx_rejects"
    if not liftable(i):
        return "excluded:no_lifted_semantics"
    pfx = split_prefixes(b)[0]
    mode = ("o16" if 0x66 in pfx else "o32") + ("a16" if 0x67 in pfx else "a32")
    name = i.m.name
    try:
        ex = emul_helper.get_instr_expr(i, ExprInt(uint32(i.l)), [])
    except Exception as e:
        tb = sys.exc_info()[2]
        fn = "?"
        while tb is not None:
            if "miasmx" in tb.tb_frame.f_code.co_filename:
                fn = tb.tb_frame.f_code.co_name
            tb = tb.tb_next
        return ("fail", ("raise", type(e).__name__, name, fn),
                "%s (%s): lifting raised %s: %s" % (b[:i.l].hex(), text(i), type(e).__name__, e))
    probs = irtype.check_list(ex, st)
    if probs:
        seen, out = set(), []
        opregs = operand_registers(text(i))
        for k, d in probs:
            k = ":".join("operand" if (j > 0 and part in opregs) else part for j, part in enumerate(k.split(":")))
            if k not in seen:
                seen.add(k)
                out.append(((k, name, ("o16" if mode.startswith("o16") else "") + ("a16" if mode.endswith("a16") else ""), opcode_of(b, i.l)), "%s (%s): %s" % (b[:i.l].hex(), text(i), d)))
        return ("fails", out)
    return ("ok", name, shape_of(i), mode, text(i), len(ex))


def worker(run, st, k, chunk):
    for b in chunk:
        st.ev()
        v = judge(b, st)
        if isinstance(v, str):
            st.exclude(v.split(":", 1)[1])
        elif v[0] == "ok":
            st.klass("lifted_ok")
            if "m" in v[2] or any(r in v[4] for r in (" al", " ah", " ax", " bx", " cl", " dx", " bl", " dl")):
                st.nt(v[1:4])
                st.sample({"bytes": b.hex()[:24], "instr": v[4], "assignments": v[5]})
        else:
            st.klass("ill_formed")
            for sg, det in ([(v[1], v[2])] if v[0] == "fail" else v[1]):
                sig = runner.norm_sig(sg)
                if not any(f[0] == sig for f in st.failures):
                    st.fail(sig, det, {"bytes": b.hex(), "sig": list(sig)})


def main(run):
    run.rule = ("enumeration: structured byte space (prefix sets incl. 66/67 x opcode maps x ModRM/SIB classes) + full ModRM grids + x87 + control-transfer forms; "
                "each decodable string with lifted semantics is lifted and type-checked. non-trivial = instruction with a memory or sub-register operand that lifts to "
                "well-formed IR; distinct = (mnemonic, operand shape, operand/address size)")
    run.assumptions = ["vlib/irtype.py encodes the well-formedness rules of the property statement",
                       "a wide source of a 1-bit flag is refuted only by evaluation on sampled valuations; sources containing an uninterpreted operator are undecided (counted)"]
    cs = set(x86space.cases(run.tier, run.seed)) | set(x86space.modrm_grid()) | set(x86space.x87_cases()) | set(x86space.control_flow_cases()) | set(x86space.boundary_value_cases())
    cs = sorted(cs)
    runner.pmap(run, worker, runner.chunks(cs, 64))
    run.extra["windows"] = len(cs)


def replay(run, case):
    v = judge(bytes.fromhex(case["bytes"]))
    if isinstance(v, tuple) and v[0] == "fail":
        return (v[1], v[2])
    if isinstance(v, tuple) and v[0] == "fails":
        want = runner.norm_sig(case.get("sig") or v[1][0][0])
        for sg, det in v[1]:
            if runner.norm_sig(sg) == want:
                return (sg, det)
        return v[1][0]
    return None
