"""C03 - assemble/disassemble round trip is a fixpoint.

(a) text -> bytes -> text -> bytes: for every accepted line of the C02 generator (both syntaxes) and EVERY candidate b:
    dis(b) is an instruction, dis(b).l == len(b), str(dis(b)) is accepted by asm(), and b is among asm(str(dis(b))).
(b) bytes -> text -> bytes: for every byte string b of the C01 space that miasmX decodes and that is canonical - GNU as applied
    to objdump's disassembly of b (AT&T or Intel text) returns b - the bytes b[:l] are among asm(str(dis(b))).
"""
import sys
from vlib import runner, refs, nf, asmgen, x86space
from checks.c02_asm import collect, call_asm, mn_class, shape_str
from checks.c01_decode import split_prefixes, row_key, lock_ok, pnorm, dropped_prefix


def asm_intel(line):
    from miasmx.arch.ia32_arch import x86mnemo
    try:
        r = x86mnemo.asm(line)
    except ValueError as ex:
        return ("ValueError", str(ex)[:80])
    except Exception as ex:
        tb = sys.exc_info()[2]
        fn = "?"
        while tb is not None:
            if "miasmx" in tb.tb_frame.f_code.co_filename or "/ply/" in tb.tb_frame.f_code.co_filename:
                fn = tb.tb_frame.f_code.co_name
            tb = tb.tb_next
        return (type(ex).__name__ + "@" + fn, str(ex)[:80])
    if not isinstance(r, list):
        return ("notalist", repr(r)[:60])
    return [bytes(x) for x in r]


def roundtrip(b):
    """b: exact instruction bytes -> None | (kind, detail)"""
    from miasmx.arch.ia32_arch import x86mnemo
    try:
        i = x86mnemo.dis(b)
    except Exception as ex:
        return ("dis-raises:" + type(ex).__name__, "dis(%s) raised %s" % (b.hex(), ex))
    if i is None:
        return ("dis-none", "the disassembler rejects %s" % b.hex())
    if i.l != len(b):
        return ("dis-length", "dis(%s) consumes %d of %d bytes" % (b.hex(), i.l, len(b)))
    try:
        txt = str(i)
    except Exception as ex:
        return ("render-raises:" + type(ex).__name__, "str(dis(%s)) raised %s" % (b.hex(), ex))
    r = asm_intel(txt)
    if isinstance(r, tuple):
        return ("reasm-raises:" + r[0], "%s renders as %r, which asm() rejects (%s: %s)" % (b.hex(), " ".join(txt.split()), r[0], r[1]))
    if b not in r and pnorm(b) not in [pnorm(x) for x in r]:        # (the order of prefix bytes is not part of the instruction)
        dp = dropped_prefix(b, r)
        return (("reasm-missing" + (":prefix-%s-dropped" % dp if dp else "")) if r else "reasm-empty", "%s renders as %r; asm() of that gives %s" % (b.hex(), " ".join(txt.split()), [x.hex() for x in r[:5]]))
    return None


def w_text(run, st_, k, n):
    specs = collect(asmgen.spec(), n, run.seed * 1000 + k)
    for sp in specs:
        for att in (False, True):
            line = asmgen.att(sp) if att else asmgen.intel(sp)
            if line is None:
                continue
            r = call_asm(att, line)
            if not isinstance(r, list):
                st_.exclude("line_rejected_or_crash")
                continue
            for idx, b in enumerate(r):
                st_.ev()
                v = roundtrip(b)
                if v is None:
                    st_.klass("a_ok")
                    if idx >= 1 or any(o[0] == "mem" for o in sp["ops"]):
                        st_.nt(("a", b))
                        st_.sample({"line": line, "candidate": idx, "bytes": b.hex()})
                else:
                    ft = spec_features(sp)
                    # a feature bucket alone (segment override, absolute address) is too coarse to list: it would hide any new defect that involves
                    # the same feature; the mnemonic class and operand shape are part of the signature
                    if "-dropped" in v[0]:
                        # the mechanism is the signature: the same bytes minus one prefix come back.  (push WORD PTR [mem] is assembled as an
                        # immediate push - listed under C02 - on which the segment prefix means nothing: its own class)
                        sig = runner.norm_sig(("a", v[0], "push-m16" if (sp["mn"] == "push" and shape_str(sp) == "m16") else "*"))
                    elif "raises" in v[0]:
                        sig = runner.norm_sig(("a", v[0]))
                    else:
                        sig = runner.norm_sig(("a", v[0], mn_class(sp["mn"]), shape_str(sp)))
                    if not any(f[0] == sig for f in st_.failures):
                        st_.fail(sig, "%s %r candidate #%d: %s" % ("asm_att" if att else "asm", line, idx, v[1]), {"a": b.hex()})


def nf_features(n):
    """addressing features of a reference instruction that the failures cluster on"""
    ft = set()
    for o in n.ops:
        if o[0] == "mem":
            if o[2] is not None and not (o[2] == "ds" and not o[3]):
                ft.add("segment-override")
            if not o[3]:
                ft.add("absolute-address")
            if any(r in nf.REG16 for r, _ in o[3]):
                ft.add("16-bit-addressing")
        if o[0] == "reg" and (o[1].startswith("cr") or o[1].startswith("dr") or o[1].startswith("db") or o[1].startswith("tr")):
            ft.add("control/debug-register")
    return "+".join(sorted(ft))


def spec_features(sp):
    ft = set()
    for o in sp["ops"]:
        if o[0] == "mem":
            if o[2] is not None:
                ft.add("segment-override")
            if not o[3] and not o[4]:
                ft.add("absolute-address")
    return "+".join(sorted(ft))


def w_bytes(run, st_, k, chunk):
    from miasmx.arch.ia32_arch import x86mnemo
    acc = []
    for b in chunk:
        try:
            i = x86mnemo.dis(b)
        except Exception:
            continue
        if i is None or not lock_ok(b):
            continue
        acc.append((b, i.l))
    if not acc:
        return
    ratt = refs.objdump([b for b, _ in acc], syntax="att", scratch=run.scratch)
    rint = refs.objdump([b for b, _ in acc], syntax="intel", scratch=run.scratch)
    cand = []
    for (b, l), a, it in zip(acc, ratt, rint):
        st_.ev()
        if a is None or it is None or a[0] != l or "(bad)" in a[1]:
            st_.exclude("reference_rejects_or_length_differs")
            continue
        n = nf.parse(it[1], 0, it[0])
        if n is None or nf.superfluous(n):
            st_.exclude("superfluous_prefix")
            continue
        if n.mn in nf.BRANCH and n.ops and n.ops[0][0] == "rel":
            st_.exclude("relative_branch(no assembler-independent text)")
            continue
        cand.append((b, l, a[1], it[1]))
    if not cand:
        return
    g1 = refs.gas([c[2] for c in cand], syntax="att", scratch=run.scratch)
    g2 = refs.gas([c[3] for c in cand], syntax="intel", scratch=run.scratch)
    for (b, l, ta, ti), x, y in zip(cand, g1, g2):
        if x != b[:l] and y != b[:l]:
            st_.exclude("not_canonical")
            continue
        v = roundtrip(b[:l])
        if v is None:
            st_.klass("b_ok")
            st_.nt(("b", b[:l]))
            if l >= 3:
                st_.sample({"canonical_bytes": b[:l].hex(), "reference": ti})
        else:
            rk = row_key(b, l)
            nref = nf.parse(ti, 0, l)
            ft = nf_features(nref)
            if "raises" in v[0] or "-dropped" in v[0]:
                sig = runner.norm_sig(("b", v[0]))
            elif "16-bit-addressing" in ft:
                sig = runner.norm_sig(("b", v[0], ft))          # the assembler has no 16-bit addressing at all: one root cause, nothing in it can regress
            elif ft:
                sig = runner.norm_sig(("b", v[0], ft, rk[0], rk[1], nref.mn))
            else:
                sig = runner.norm_sig(("b", v[0], rk[0], rk[1], nref.mn))
            if not any(f[0] == sig for f in st_.failures):
                st_.fail(sig, "canonical %s (%s): %s" % (b[:l].hex(), ti, v[1]), {"b": b.hex()})


def main(run):
    refs.need("objdump"); refs.need("as")
    run.rule = ("(a) every candidate of every accepted generated line (Intel and AT&T renderings of vlib/asmgen.py specs) goes through dis -> str -> asm; "
                "(b) every decodable window of the structured byte space that is canonical (GNU as re-assembles objdump's AT&T or Intel text to the same bytes) goes through "
                "dis -> str -> asm. non-trivial = (a) candidate index >= 1 or memory operand, (b) any canonical string; distinct by bytes")
    run.assumptions = ["canonicity is decided by GNU as + objdump exactly as the statement defines it; relative branches are skipped in (b) because objdump prints absolute targets",
                       "membership (b in asm(str(dis(b)))) is demanded, not equality of candidate sets"]
    runner.pmap(run, w_text, [run.pick(700, 15000)] * 16)
    cs = set(x86space.cases(run.tier, run.seed, thin=run.pick(2, 1))) | set(x86space.modrm_grid()) | set(x86space.segment_grid(*run.pick(((b"\x8b", b"\xff", b"\x0f\xb6"),), ()))) | set(x86space.x87_cases()) | set(x86space.boundary_value_cases())
    runner.pmap(run, w_bytes, runner.chunks(sorted(cs), 64))


def replay(run, case):
    with runner.quiet():
        if "a" in case:
            v = roundtrip(bytes.fromhex(case["a"]))
            if v is None:
                return None
            return (run.want_sig if run.want_sig and run.want_sig[1] == v[0] else ("a", v[0], "?", "?"), v[1])
        st_ = runner.Stats()
        w_bytes(run, st_, 0, [bytes.fromhex(case["b"])])
    for sig, det, _ in st_.failures:
        return (sig, det)
    return None
