"""C16 - expression read sets and pattern matching are semantically exact.

Read sets (dependency probing with the reference interpreter):
  * an identifier whose perturbation changes the value of e, memory cells held opaque, must be in e.get_r();
    a memory cell (outermost ExprMem) whose content changes the value must be in e.get_r();
  * with mem_read=True: every identifier whose perturbation changes the value (also through an address) and
    every memory byte whose perturbation changes it must be covered by get_r(mem_read=True) (the byte by an
    ExprMem of the set whose address spans it; the identifiers of that address must be in the set too);
  * get_expr_ids(e) contains every identifier that influences the value;
  * ExprAff(d, s).get_w() names d (and get_r of the assignment covers the source's dependencies).
Matching: for (pattern p, wildcards W, binding b), e = substitute(p, b):
  * if MatchExpr(e, p, W) is not False, substituting the returned bindings into p reproduces e;
  * for a one-field mutation e' of e (same shape) for which an independent matcher finds no binding,
    MatchExpr(e', p, W) must be False.
"""
import sys
from hypothesis import strategies as st
from vlib import runner, irsem, exprgen
from vlib.exprgen import build, sshow, swidth, sids, paths, get_at, set_at, to_script
from checks.c15_struct import substitute, more_mutation, exc_sig

NV = 6


class OpaqueEnv(irsem.Env):
    pass


def ev_opaque(e, env, memvals):
    """value of e with every outermost ExprMem replaced by an opaque value memvals[text]"""
    c = irsem.cname(e)
    if c == "ExprMem":
        k = str(to_script(e))
        return memvals(k, e.size)
    if c == "ExprOp":
        vals = [ev_opaque(a, env, memvals) for a in e.args]
        ws = [irsem.width(a) for a in e.args]
        return irsem.apply_op(e.op, vals, ws, ws[0])
    if c == "ExprCond":
        cv = ev_opaque(e.cond, env, memvals)
        a = ev_opaque(e.src1, env, memvals)
        b = ev_opaque(e.src2, env, memvals)
        return a if cv else b
    if c == "ExprSlice":
        return (ev_opaque(e.arg, env, memvals) >> e.start) & ((1 << (e.stop - e.start)) - 1)
    if c == "ExprCompose":
        lo = min(x[1] for x in e.args)
        r = 0
        for x, s, t in e.args:
            r |= (ev_opaque(x, env, memvals) & ((1 << (t - s)) - 1)) << (s - lo)
        return r
    return irsem.ev(e, env)


def outer_mems(s, out=None):
    out = [] if out is None else out
    if s[0] == "mem":
        out.append(s)
        return out
    for p in paths(s)[1:]:
        pass
    k = s[0]
    if k == "op":
        for a in s[2]: outer_mems(a, out)
    elif k == "cond":
        for i in (1, 2, 3): outer_mems(s[i], out)
    elif k == "slice":
        outer_mems(s[1], out)
    elif k == "compose":
        for x in s[1]: outer_mems(x[0], out)
    return out


def flips(w):
    return sorted(set([1, 1 << (w - 1), (1 << w) - 1, 1 << (w // 2), 0x80 & ((1 << w) - 1) or 1, 2 & ((1 << w) - 1) or 1, 0x10 & ((1 << w) - 1) or 1]))


def names(rs):
    return set(x.name for x in rs if x.__class__.__name__ == "ExprId")


def read_oracle(s):
    """s: value expression script, or ['aff', dst, src]"""
    if s[0] == "aff":
        try:
            a = build(s)
            w = a.get_w()
            d = build(s[1])
            if d not in w:
                return (("get_w", "destination_missing", s[1][0]), "get_w(%s) = %s does not name the destination" % (sshow(s), w))
        except Exception as ex:
            return (exc_sig("get_w", ex), "%s: %s on %s" % (type(ex).__name__, ex, sshow(s)))
        r = read_part(s[2], lambda: build(s), "aff")
        return r
    return read_part(s, lambda: build(s), s[0])


def read_part(s, getr, top):
    from miasmx.expression import expression as ex_
    ids = sids(s)
    e = build(s)
    try:
        # both calls on ONE object, in both orders (client code asks the same lifted expression for both sets)
        o = getr()
        r0 = o.get_r(False)
        r1 = o.get_r(True)
        o2 = getr()
        r1b = o2.get_r(True)
        r0b = o2.get_r(False)
        if set(map(str, r1)) != set(map(str, r1b)) or set(map(str, r0)) != set(map(str, r0b)):
            return (("get_r", "result_depends_on_call_order", top), "%s: get_r() then get_r(mem_read=True) gives %s / %s, the other order %s / %s" % (
                sshow(s), sorted(map(str, r0)), sorted(map(str, r1)), sorted(map(str, r0b)), sorted(map(str, r1b))))
        gi = ex_.get_expr_ids(build(s))
    except Exception as ex:
        return (exc_sig("get_r", ex), "%s: %s on %s" % (type(ex).__name__, ex, sshow(s)))
    n0, n1, ni = names(r0), names(r1), names(gi)
    mems0 = [m for m in r0 if m.__class__.__name__ == "ExprMem"]
    mems1 = [m for m in r1 if m.__class__.__name__ == "ExprMem"]
    om = outer_mems(s)
    for v, ms in exprgen.fixed_valuations(ids, NV, 5):
        memvals = lambda k, size, ms=ms, over={}: over.get(k, irsem._h("opq", ms, k) & ((1 << size) - 1))
        base_o = ev_opaque(e, irsem.Env(v, ms), memvals)
        env = irsem.Env(v, ms)
        base = irsem.ev(e, env)
        touched = sorted(env.read_mem)
        for x in sorted(ids):
            w = ids[x]
            dep_o = dep = False
            for f in flips(w):
                v2 = dict(v); v2[x] = v[x] ^ f
                if not dep_o and ev_opaque(e, irsem.Env(v2, ms), memvals) != base_o:
                    dep_o = True
                if not dep and irsem.ev(e, irsem.Env(v2, ms)) != base:
                    dep = True
            if dep_o and x not in n0:
                return (("get_r", "identifier_missing", where(s, x)), "%s depends on %s but get_r() = %s" % (sshow(s), x, sorted(map(str, r0))))
            if dep and x not in n1:
                return (("get_r_mem", "identifier_missing", where(s, x)), "%s depends on %s but get_r(mem_read=True) = %s" % (sshow(s), x, sorted(map(str, r1))))
            if (dep or dep_o) and x not in ni:
                return (("get_expr_ids", "identifier_missing", where(s, x)), "%s depends on %s but get_expr_ids = %s" % (sshow(s), x, sorted(ni)))
        # opaque cells -> get_r()
        for m in om:
            k = str(m)
            over = {k: (irsem._h("opq", ms, k) ^ 0xFFFFFFFFFFFFFFFF) & ((1 << m[2]) - 1)}
            mv2 = lambda kk, size, ms=ms, over=over: over.get(kk, irsem._h("opq", ms, kk) & ((1 << size) - 1))
            if ev_opaque(e, irsem.Env(v, ms), mv2) != base_o:
                bm = build(m)
                if not any(x == bm for x in mems0):
                    return (("get_r", "memory_cell_missing", top), "%s depends on the cell %s but get_r() = %s" % (sshow(s), sshow(m), sorted(map(str, r0))))
        # memory bytes -> get_r(mem_read=True)
        for addr in touched[:12]:
            env2 = irsem.Env(v, ms, {addr: env.byte(addr) ^ 0xFF})
            if irsem.ev(e, env2) != base:
                covered = False
                for m in mems1:
                    a = irsem.ev(m.arg, irsem.Env(v, ms))
                    if (addr - a) % (1 << 32) < m.size // 8:
                        covered = True
                        need = set(sids_noseg(to_script(m.arg)))
                        if need - n1:
                            return (("get_r_mem", "address_identifier_missing", top), "%s reads %s whose address uses %s, absent from get_r(mem_read=True) = %s" % (
                                sshow(s), m, sorted(need - n1), sorted(map(str, r1))))
                if not covered:
                    return (("get_r_mem", "memory_cell_missing", top), "%s depends on the byte at 0x%X, covered by no cell of get_r(mem_read=True) = %s" % (
                        sshow(s), addr, sorted(map(str, r1))))
    return None


def sids_noseg(s, out=None):
    """identifiers of a script, segment selectors excluded (the flat memory model gives them no influence)"""
    out = set() if out is None else out
    k = s[0]
    if k in ("id", "regid"): out.add(s[1])
    elif k == "mem": sids_noseg(s[1], out)
    elif k == "op":
        for a in s[2]: sids_noseg(a, out)
    elif k == "cond":
        for i in (1, 2, 3): sids_noseg(s[i], out)
    elif k == "slice": sids_noseg(s[1], out)
    elif k == "compose":
        for x in s[1]: sids_noseg(x[0], out)
    return out


def where(s, x):
    """the kind of the innermost node that has identifier x as a direct child (names the node kind at fault)"""
    best = "?"
    for p in paths(s):
        n = get_at(s, p)
        ch = []
        if n[0] == "mem": ch = [n[1]] + ([n[3]] if n[3] else [])
        elif n[0] == "op": ch = n[2]
        elif n[0] == "cond": ch = n[1:4]
        elif n[0] == "slice": ch = [n[1]]
        elif n[0] == "compose": ch = [q[0] for q in n[1]]
        if any(c[0] in ("id", "regid") and c[1] == x for c in ch):
            best = n[0] if n[0] != "op" else "op"
    return best


# ---- matching -------------------------------------------------------------------
def ref_match(e, p, W, b):
    """independent first-order matcher on scripts; W: set of wildcard names; b: dict name -> script"""
    if p[0] in ("id", "regid") and p[1] in W:
        if p[1] in b:
            return b[p[1]] == e
        b[p[1]] = e
        return True
    if e[0] != p[0]:
        return False
    k = e[0]
    if k in ("int", "id", "regid"):
        return e == p
    if k == "mem":
        if e[2] != p[2]:
            return False
        if (e[3] is None) != (p[3] is None):
            return False
        if e[3] is not None and not ref_match(e[3], p[3], W, b):
            return False
        return ref_match(e[1], p[1], W, b)
    if k == "op":
        if e[1] != p[1] or len(e[2]) != len(p[2]):
            return False
        return all(ref_match(x, y, W, b) for x, y in zip(e[2], p[2]))
    if k == "cond":
        return all(ref_match(e[i], p[i], W, b) for i in (1, 2, 3))
    if k == "slice":
        return e[2:] == p[2:] and ref_match(e[1], p[1], W, b)
    if k == "compose":
        if len(e[1]) != len(p[1]):
            return False
        return all(x[1:] == y[1:] and ref_match(x[0], y[0], W, b) for x, y in zip(e[1], p[1]))
    return False


def match_oracle(case):
    """case: dict(p=pattern, w=[wildcard names], b={name: script}, m=[kind, mutated e] or None)"""
    from miasmx.expression import expression as ex_
    p, W, beta = case["p"], case["w"], case["b"]
    pid = sids(p)
    e_s = substitute(p, [[["id", n, pid[n]], beta[n]] for n in W])
    tks = [build(["id", n, pid[n]]) for n in W]
    # instance: success implies reproduction
    try:
        r = ex_.MatchExpr(build(e_s), build(p), tks)
    except Exception as ex:
        return (exc_sig("match", ex), "%s: %s matching %s against %s" % (type(ex).__name__, ex, sshow(e_s), sshow(p)))
    case["_success"] = r is not False
    if r is not False:
        got = r if isinstance(r, dict) else {}
        try:
            d = [[["id", k.name, k.size], to_script(v)] for k, v in got.items()]
        except Exception as ex:
            return (("match", "bad_binding", p[0]), "MatchExpr(%s, %s) returned %r" % (sshow(e_s), sshow(p), r))
        back = substitute(p, d)
        if not (build(back) == build(e_s)) or back != e_s:
            return (("match", "binding_does_not_reproduce", topkinds(p)), "MatchExpr(%s, %s, %s) returned %s; substituting gives %s" % (
                sshow(e_s), sshow(p), W, [(sshow(a), sshow(b_)) for a, b_ in d], sshow(back)))
    # non-instance
    if case.get("m"):
        mk, em = case["m"]
        if not ref_match(em, p, set(W), {}):
            try:
                r2 = ex_.MatchExpr(build(em), build(p), tks)
            except Exception as ex:
                return (exc_sig("match", ex), "%s: %s matching %s against %s" % (type(ex).__name__, ex, sshow(em), sshow(p)))
            if r2 is not False:
                return (("match", "non_instance_accepted", mk), "MatchExpr(%s, %s, %s) returned %r although no binding exists" % (sshow(em), sshow(p), W, r2))
    return None


def topkinds(p):
    return p[0] if p[0] != "op" else "op"


@st.composite
def match_cases(draw):
    w = draw(st.sampled_from(exprgen.WIDTHS))
    p = draw(exprgen.expr(w, 3))
    pid = sids(p)
    if not pid:
        p = ["op", "+", [p, draw(exprgen.ident(w))]] if w != 1 else draw(exprgen.ident(1))
        pid = sids(p)
    names_ = sorted(pid)
    W = draw(st.lists(st.sampled_from(names_), min_size=1, max_size=len(names_), unique=True))
    beta = {}
    for n in W:
        beta[n] = draw(exprgen.expr(pid[n], 1))
    e_s = substitute(p, [[["id", n, pid[n]], beta[n]] for n in W])
    m = None
    c = draw(st.integers(0, 3))
    if c <= 1:
        k, em = draw(exprgen.mutate(e_s))
        if k is not None and em != e_s:
            m = [k, em]
    elif c == 2:
        m = draw(more_mutation(e_s))
    return {"p": p, "w": W, "b": beta, "m": m}


def count_occ(p, n):
    return sum(1 for q in paths(p) if get_at(p, q)[0] == "id" and get_at(p, q)[1] == n)


def w_read(run, st_, k, n):
    @st.composite
    def gen(draw):
        w = draw(st.sampled_from(exprgen.WIDTHS))
        s = draw(exprgen.expr(w, 3))
        if draw(st.integers(0, 4)) == 0:
            dst = ["mem", draw(exprgen.expr(32, 1, mem=False)), w, None] if (w >= 8 and draw(st.booleans())) else draw(exprgen.ident(w))
            s = ["aff", dst, s]
        return s

    def orc(s):
        r = read_oracle(s)
        st_.klass("read_" + s[0])
        if r is None and sids(s):
            st_.nt(("r", sshow(s)))
            st_.sample({"read": sshow(s)})
        return r
    runner.hyp_drive(run, st_, gen(), orc, n, run.seed * 1000 + k, to_case=lambda s: {"read": s})


def w_match(run, st_, k, n):
    def orc(case):
        r = match_oracle(case)
        st_.klass("match_mut_" + (case["m"][0] if case["m"] else "none"))
        st_.klass("match_true_instance_" + ("accepted" if case.pop("_success", False) else "rejected_by_MatchExpr(not demanded)"))
        if any(count_occ(case["p"], x) >= 2 for x in case["w"]):
            st_.klass("match_repeated_wildcard")
        if r is None:
            st_.nt(("m", sshow(case["p"]), tuple(case["w"]), repr(case["m"])))
            st_.sample({"pattern": sshow(case["p"]), "wildcards": case["w"], "binding": dict((a, sshow(b)) for a, b in case["b"].items()),
                        "mutated_instance": case["m"] and [case["m"][0], sshow(case["m"][1])]})
        return r
    runner.hyp_drive(run, st_, match_cases(), orc, n, run.seed * 1000 + 50 + k, to_case=lambda c: {"match": c})


def success_rate(run):
    """vacuity indicator: how often MatchExpr succeeds on true instances (not demanded by the property)"""
    pass


def main(run):
    run.rule = ("read sets: Hypothesis expressions/assignments x 6 valuations x perturbation of each identifier (7 bit patterns), of each opaque memory cell and of each "
                "memory byte read; matching: (pattern, wildcard set, binding) triples with e = substitute(p, binding), plus one-field mutations of e judged by an "
                "independent matcher. non-trivial = expression with at least one identifier (read part) / any triple (match part); distinct by text")
    run.assumptions = ["vlib/irsem.py is the value semantics", "get_r() without mem_read reports memory cells as opaque reads: identifiers occurring only inside a memory address are required only with mem_read=True",
                       "success of MatchExpr on true instances is not demanded (the statement does not)"]
    n = run.pick(500, 10000)
    runner.pmap(run, w_read, [n] * 16)
    runner.pmap(run, w_match, [run.pick(1200, 20000)] * 16)


def replay(run, case):
    if "read" in case:
        return read_oracle(case["read"])
    return match_oracle(case["match"])
