"""C07 - symbolic machine state equals sequential execution, including overlapping memory.

Histories (Hypothesis-generated lists of steps, shrunk as one value; plus an exhaustive enumeration of <= 2 stores + 1 load):
    store / load of width 8/16/32 at offset 0..7 from a constant base or from the symbolic base init_esi,
    integer-core instructions with register, immediate and memory operands, push/pop, and rep-prefixed string
    instructions with a concrete count.
Each step is emulated on one x86_machine() with emul_helper.emul_lines, and on a *model*: a concrete byte-addressed little-endian
machine that executes the same lifted assignment list with vlib/irsem.py (all right-hand sides on the pre-state; a rep instruction as
count single steps with the architectural termination test).
Invariant after every step, for each of 3 valuations of the initial symbols: every register expression of the machine evaluates to the
model's register, and every read-back machine.eval_expr(@w[addr]) for w in 8/16/32 at offsets -3..+7 around each address touched so far
evaluates to the model's little-endian read.
"""
import os
import sys
import json
import hashlib
from hypothesis import strategies as st
from vlib import runner, refs, irsem, irtype

_TYPED = {}

GPR = ["eax", "ecx", "edx", "ebx", "esp", "ebp", "esi", "edi"]
FLAGS = ["zf", "nf", "pf", "of", "cf", "af", "df"]
CONST_BASE = 0x1000
DREGS = {32: ["eax", "ecx", "edx", "ebx"], 16: ["ax", "cx", "dx", "bx"], 8: ["al", "cl", "dl", "bl", "ah", "bh"]}
SUF = {8: "b", 16: "w", 32: "l"}


def build_tables():
    """step name -> AT&T text"""
    steps = {}
    for base in ("c", "s"):
        for w in (8, 16, 32):
            for off in range(8):
                addr = ("0x%x" % (CONST_BASE + off)) if base == "c" else ("%d(%%esi)" % off)
                for r in DREGS[w][:4]:
                    steps["store:%s:%d:%d:%s" % (base, w, off, r)] = "mov%s %%%s, %s" % (SUF[w], r, addr)
                    steps["load:%s:%d:%d:%s" % (base, w, off, r)] = "mov%s %s, %%%s" % (SUF[w], addr, r)
                steps["storei:%s:%d:%d" % (base, w, off)] = "mov%s $0x%x, %s" % (SUF[w], (0x11223344 + off) & ((1 << w) - 1), addr)
                steps["loadz:%s:%d:%d" % (base, w, off)] = ("movz%sl %s, %%edx" % (SUF[w], addr)) if w < 32 else ("movl %s, %%edx" % addr)
    misc = ["addl %ecx, %eax", "subl $1, %ebx", "xorl %edx, %edx", "incl %ecx", "negl %eax", "notl %ebx", "leal 4(%eax,%ecx,2), %edx", "xchgl %eax, %ebx",
            "movl $0x12345678, %eax", "movl $3, %ecx", "movl $0, %ecx", "movl $1, %ecx", "movl $5, %ecx", "movw $0xffff, %dx", "movb $0x7f, %al", "movb $0x11, %al", "movb $0x80, %ah", "movl %ecx, %edx", "movl %edx, %ecx", "movl $3, %edx", "movb $0x81, %bl", "movw $0x8001, %bx",
            "rorb $12, %bl", "rorb $7, %bl", "rorw $20, %bx", "rorw $9, %bx", "rorb %cl, %bl", "rorl $12, %ebx", "movl $12, %ecx", "movl $20, %ecx", "cwtl", "cbtw", "movw $0x8234, %ax",
            "shll $4, %eax", "shrl $1, %ebx", "sarl $31, %edx", "roll $8, %eax", "andl $0xff00, %ebx", "orl %eax, %edx", "adcl %ebx, %eax", "sbbl $0, %edx",
            "cmpl %eax, %ebx", "testl %ecx, %ecx", "sete %al", "sete %ah", "setne %bl", "setb %ch", "setl %dl", "setge %bh", "cmpl %ecx, %ebx", "movzbl %al, %ebx", "movsbl %ah, %ecx", "movzwl %dx, %eax", "imull %ecx, %eax", "cltd", "cld", "std",
            "pushl %eax", "pushl %ebx", "popl %ecx", "popl %edx", "pushl $0x55", "pushw %ax", "popw %bx",
            "addl %eax, 4(%esi)", "subl 4(%esi), %ebx", "addw %cx, 2(%esi)", "orb %dl, 1(%esi)", "xchgl %eax, 4(%esi)", "incl 0x1004", "addb %al, 0x1001", "xorl 0x1000, %ecx",
            "movsb", "movsl", "stosb", "stosl", "stosw", "lodsb", "lodsl", "scasb", "cmpsb",
            "rep movsb", "rep movsl", "rep stosb", "rep stosl", "rep stosw", "repe cmpsb", "repne scasb", "repe scasb", "repne cmpsb",
            "leal 1(%esi), %esi", "leal 4(%edi), %edi", "movl %esi, %edi", "leal 16(%esi), %edi"]
    for m in misc:
        steps["x:" + m] = m
    return steps


def assemble(run, steps):
    names = sorted(steps)
    codes = refs.gas([steps[n] for n in names], syntax="att", scratch=run.scratch)
    return dict((n, c) for n, c in zip(names, codes) if c is not None)


class Model(object):
    """concrete little-endian machine executing lifted lists with irsem"""
    def __init__(self, val, memseed):
        self.regs = dict((r, val["init_" + r]) for r in GPR)
        self.flags = dict((f, val["init_" + f]) for f in FLAGS)
        self.mem = {}
        self.memseed = memseed
        self.val = val
        self.extra = {}            # every other identifier the lifter may read (segments, ...): their initial symbols

    def env(self):
        ids = dict(self.regs)
        ids.update(self.flags)
        ids.update(self.extra)
        ids.update(self.val)
        return irsem.Env(ids, self.memseed, dict(self.mem))

    def step(self, ex):
        env = self.env()
        nregs, nflags, nmem, eip = {}, {}, {}, None
        wr = []
        for e in ex:
            v = irsem.ev_lazy(e.src, env, uninterp="hash")
            d = e.dst
            if irsem.cname(d) == "ExprId":
                v &= (1 << d.size) - 1
                if d.name in self.regs:
                    nregs[d.name] = v
                elif d.name in self.flags:
                    nflags[d.name] = v & 1
                elif d.name != "eip":
                    self.extra[d.name] = v
            else:
                a = irsem.ev_lazy(d.arg, env)
                wr.append((a & 0xFFFFFFFF, d.size // 8))
                for i in range(d.size // 8):
                    nmem[(a + i) & 0xFFFFFFFF] = (v >> (8 * i)) & 0xFF
        self.regs.update(nregs)
        self.flags.update(nflags)
        self.mem.update(nmem)
        self.accesses = [(a, n, "r") for a, n in env.loads] + [(a, n, "w") for a, n in wr]
        return sorted(set(a for a in nmem))

    def read(self, addr, n):
        env = irsem.Env({}, self.memseed, self.mem)
        return env.load(addr, n)


def lifted(instr):
    from miasmx.tools import emul_helper
    from miasmx.tools.modint import uint32
    from miasmx.expression.expression import ExprInt
    return emul_helper.get_instr_expr(instr, ExprInt(uint32(instr.offset + instr.l)), [])


def run_history(names, codes, nval=3, salt=0, readback=True):
    """-> 'excluded:..' | list of (sig, detail) (empty = the invariant held after every step).  names: list of step names.
    The walk continues after a failed comparison (each signature once), so that a ubiquitous defect does not hide the ones behind it;
    it stops only when the machine raises while emulating a step."""
    fails = []
    seen = set()
    run_history.last_class = "clean"

    def fail(sig, det):
        sig = runner.norm_sig(sig)
        if sig not in seen:
            seen.add(sig)
            fails.append((sig, det))
    from miasmx.arch.ia32_arch import x86mnemo
    from miasmx.tools import emul_helper
    from miasmx.expression import expression as ex_
    from miasmx.expression import expression_eval_abstract as ea
    from miasmx.tools.modint import uint32
    from miasmx.arch import ia32_sem as sem
    ea.eval_abs.get_mem_overlapping.__defaults__[0].clear()
    machine = emul_helper.x86_machine()
    # valuations of the initial symbols
    vals = []
    for k in range(nval):
        v = {}
        for i, r in enumerate(GPR):
            h = int.from_bytes(hashlib.blake2b(repr((salt, k, r)).encode(), digest_size=4).digest(), "little")
            v["init_" + r] = h
        v["init_esi"] = 0x40000000 + 0x1000 * k + (v["init_esi"] & 0xF0)
        v["init_edi"] = 0x50000000 + 0x1000 * k + (v["init_edi"] & 0xF0)
        v["init_esp"] = 0x60000000 + 0x100 * k
        for f in FLAGS:
            v["init_" + f] = (k + len(f)) & 1 if f != "df" else 0
        vals.append(v)
    models = [Model(v, 1000 + k) for k, v in enumerate(vals)]
    touched = set()          # (base kind, offset expression) we read back around
    writes = []              # byte ranges written so far (model 0)
    hclass = set()           # sticky class of the history so far: see dirty_sig()

    def dsig(*detailed, **kw):
        # a failure inside a history whose accesses never overlapped partially and whose string instructions ran with a concrete
        # direction flag gets its detailed signature; otherwise the root cause is the machine's memory model (syntactic address
        # equality, no byte-wise resolution), reported per kind of symptom and class of history
        hc = hclass | set(kw.get("extra", ()))
        if not hc:
            return detailed
        # one class for both ways of losing track of an alias (the distinction is kept in the class histogram): a rare
        # symptom x class combination must not look like a new defect at some other seed
        # two listed families; exactly one label per failure so that symptom x label combinations stay few: memory read-back
        # symptoms belong to the memory model, register symptoms to the rep termination when that is in play
        if "symbolic-rep-termination" in hc and not detailed[0].startswith(("readback", "ill-formed-readback")):
            label = "rep-termination-on-symbolic-flag"
        else:
            label = "unresolved-overlap-or-alias"
        return (detailed[0],) + tuple(detailed[1:3] if detailed[0].endswith("raises") else ()) + (label,)
    const_addrs, sym_offs = set(), {}
    offset = 0
    for idx, name in enumerate(names):
        code = codes[name]
        instr = x86mnemo.dis(code)
        if instr is None or instr.l != len(code):
            return "excluded:decode"
        instr.offset = offset
        offset += instr.l
        # ---- model
        try:
            ex = lifted(x86mnemo.dis(code))
        except Exception:
            return "excluded:lifting_raises(C11)"
        if code not in _TYPED:
            _TYPED[code] = not irtype.check_list(ex)
        if not _TYPED[code]:
            return "excluded:ill_typed_lifting(C11)"
        isrep = (0xF2 in instr.prefix or 0xF3 in instr.prefix) and instr.m.name[:-1] in ("movs", "stos", "lods", "cmps", "scas")
        if isrep and irsem.cname(machine.pool[sem.ecx]) != "ExprInt":
            return "excluded:rep_with_symbolic_count"
        rep_count0 = models[0].regs["ecx"]
        written_now = []
        isstring = instr.m.name[:-1] in ("movs", "stos", "lods", "cmps", "scas") and len(instr.m.name) == 5
        if isstring and irsem.cname(machine.pool[sem.df]) != "ExprInt":
            hclass.add("symbolic-direction")
        acc0 = []
        for m in models:
            try:
                if isrep:
                    guard = 0
                    while m.regs["ecx"] != 0 and guard < 64:
                        written_now += m.step(ex)
                        if m is models[0]:
                            acc0 += m.accesses
                        m.regs["ecx"] = (m.regs["ecx"] - 1) & 0xFFFFFFFF
                        guard += 1
                        if instr.m.name[:-1] in ("cmps", "scas"):
                            if 0xF3 in instr.prefix and m.flags["zf"] == 0:
                                break
                            if 0xF2 in instr.prefix and m.flags["zf"] == 1:
                                break
                    if guard >= 64:
                        return "excluded:rep_count_not_small"
                else:
                    written_now += m.step(ex)
                    if m is models[0]:
                        acc0 += m.accesses
            except (irsem.Unsupported, irsem.Undefined, ZeroDivisionError):
                return "excluded:model_cannot_execute"
        for a, n, k in acc0:
            for lo, n2 in writes:
                if a < lo + n2 and lo < a + n and (a, n) != (lo, n2):
                    hclass.add("partial-overlap")
                    break
            if k == "w" and (a, n) not in writes:
                writes.append((a, n))
        # ---- machine
        if isrep and irsem.cname(machine.pool[sem.ecx]) != "ExprInt":
            return "excluded:rep_with_symbolic_count"
        try:
            emul_helper.emul_lines(machine, [instr])
        except Exception as e:
            tb = sys.exc_info()[2]
            fn = "?"
            while tb is not None:
                if "miasmx" in tb.tb_frame.f_code.co_filename:
                    fn = tb.tb_frame.f_code.co_name
                tb = tb.tb_next
            fail(dsig("emulation-raises", type(e).__name__, fn, step_class(name)), "step %d (%s) of %s raised %s: %s" % (idx, name, names, type(e).__name__, e))
            run_history.last_class = "+".join(sorted(hclass)) or "clean"
            return fails
        if isrep and instr.m.name[:-1] in ("cmps", "scas") and rep_count0 != 0 and irsem.cname(machine.pool[sem.zf]) != "ExprInt":
            # the data compared are symbolic, so the machine cannot know where repe / repne stops: it runs the full count
            hclass.add("symbolic-rep-termination")
        # ---- registers
        for ri, r in enumerate(GPR + FLAGS):
            try:
                e = machine.pool[getattr(sem, r)]
            except KeyError:
                continue
            for m in models:
                try:
                    got = irsem.ev(e, irsem.Env(m.val, m.memseed))
                except irsem.Undefined:
                    continue
                except Exception as ex2:
                    fail(dsig("ill-formed-register-expression", r if r in FLAGS else "gpr", step_class(name)), "after step %d (%s) of %s: %s = %s cannot be evaluated (%s: %s)" % (
                        idx, name, names, r, str(e)[:200], type(ex2).__name__, ex2))
                    break
                want = m.regs[r] if r in m.regs else m.flags[r]
                mask = 0xFFFFFFFF if r in m.regs else 1
                if (got ^ want) & mask:
                    fail(dsig("register", r if r in FLAGS else "gpr", step_class(name)),
                            "after step %d (%s) of %s: %s = %s evaluates to 0x%x, sequential execution gives 0x%x" % (idx, name, names, r, str(e)[:160], got & mask, want))
                    break
        # ---- memory read-back around everything touched so far
        m0 = models[0]
        for a in written_now:
            pass
        for a in set(written_now_addrs(models[0], written_now)):
            touched.add(a)
        # read back after every step that wrote memory (and once at the end of the history), around the addresses written so far
        last = idx == len(names) - 1
        for (kind, off) in (sorted(touched) if (readback and (written_now or last)) else []):
            for w in (8, 16, 32):
                for d in range(-3, 5):
                    if kind == "c":
                        aexp = ex_.ExprInt(uint32(off + d))
                    else:
                        aexp = ex_.ExprOp("+", getattr(sem, "init_" + kind), ex_.ExprInt(uint32((off + d) & 0xFFFFFFFF)))
                    a0 = ((0 if kind == "c" else m0.val["init_" + kind]) + off + d) & 0xFFFFFFFF
                    xc = ["partial-overlap"] if any(a0 < lo + n2 and lo < a0 + w // 8 and (a0, w // 8) != (lo, n2) for lo, n2 in writes) else []
                    try:
                        r = machine.eval_expr(ex_.ExprMem(aexp, w), {})
                    except Exception as e:
                        fail(dsig("readback-raises", type(e).__name__, "eval_expr", "@%d" % w, extra=xc),
                             "after %s: reading @%d[%s%+d] raised %s: %s" % (names[:idx + 1], w, kind, off + d, type(e).__name__, e))
                        continue
                    for m in models:
                        base = 0 if kind == "c" else m.val["init_" + kind]
                        addr = (base + off + d) & 0xFFFFFFFF
                        try:
                            got = irsem.ev(r, irsem.Env(m.val, m.memseed))
                            if irsem.width(r) != w:
                                raise ValueError("width %d" % irsem.width(r))
                        except Exception as e2:
                            fail(dsig("ill-formed-readback", "@%d" % w, step_class(name), extra=xc),
                                 "after %s: @%d[%s%+d] evaluates to the ill-formed %s (%s: %s)" % (names[:idx + 1], w, kind, off + d, str(r)[:200], type(e2).__name__, e2))
                            break
                        want = m.read(addr, w // 8)
                        if got != want:
                            fail(dsig("readback-value", "@%d" % w, step_class(name), extra=xc),
                                 "after %s: @%d[%s%+d] = %s evaluates to 0x%x, the byte model holds 0x%x" % (names[:idx + 1], w, kind, off + d, str(r)[:200], got, want))
                            break
    run_history.last_class = "+".join(sorted(hclass)) or "clean"
    return fails


def written_now_addrs(model, addrs):
    """classify written concrete addresses of model 0 back into (base kind, offset)"""
    out = []
    for a in addrs:
        if a < 0x10000:
            out.append(("c", a))
        elif 0x40000000 <= a < 0x40000000 + 0x10000:
            out.append(("esi", a - model.val["init_esi"]))
        elif 0x50000000 <= a < 0x50000000 + 0x10000:
            out.append(("edi", a - model.val["init_edi"]))
        elif 0x5FFF0000 <= a < 0x60010000:
            out.append(("esp", a - model.val["init_esp"]))
    # one representative per 4-byte group keeps the read-back grid small
    return sorted(set((k, o) for k, o in out))[:2]


def load_class(names, idx):
    p = names[idx].split(":")
    if p[0] not in ("load", "loadz"):
        return None
    off = int(p[3]) + (CONST_BASE if p[1] == "c" else 0)
    return overlap_class(names[:idx], "c" if p[1] == "c" else "esi", off, int(p[2]))


def step_class(name):
    p = name.split(":")
    if p[0] in ("store", "load", "storei", "loadz"):
        return "%s%s" % (p[0], p[2])
    return p[1].split()[0] + (" " + p[1].split()[1] if p[1].startswith("rep") else "")


def history_class(names):
    ks = set()
    for n in names:
        p = n.split(":")
        ks.add(p[0] if p[0] != "x" else ("rep" if p[1].startswith("rep") else "insn"))
    return "+".join(sorted(ks))


def overlap_class(names, kind, off, w):
    """how the read [off, off+w/8) relates to the earlier stores of the same base kind (coarse: the exact configurations of
    <= 2 stores + 1 load are judged individually by the exhaustive layer and its committed baseline)"""
    rel = set()
    lo, hi = off, off + w // 8
    for n in names:
        p = n.split(":")
        if p[0] in ("store", "storei") and ((p[1] == "c") == (kind == "c")):
            sw = int(p[2]) // 8
            so = int(p[3]) + (CONST_BASE if p[1] == "c" else 0)
            slo, shi = so, so + sw
            if shi <= lo or hi <= slo:
                continue
            rel.add("exact" if (slo, shi) == (lo, hi) else "partial-overlap")
        elif p[0] == "x" and ("(%" in p[1] or "0x100" in p[1] or p[1].split()[0] in ("pushl", "pushw", "popl", "popw") or p[1].split()[-1][:4] in ("movs", "stos", "cmps", "scas", "lods")):
            rel.add("after-memory-instruction")
    if "partial-overlap" in rel:
        rel.discard("exact")
    return "%s-base:%s" % ("const" if kind == "c" else "symbolic", "+".join(sorted(rel)) or "untouched")


def hist_key(h):
    """register-independent key of a store/load history"""
    return "|".join(":".join(x.split(":")[:4]) for x in h)


BASELINE = os.path.join(os.path.dirname(os.path.dirname(os.path.abspath(__file__))), "baselines", "c07_overlap.json")


def load_baseline():
    if os.path.exists(BASELINE):
        with open(BASELINE) as f:
            return set(json.load(f)["failing"])
    return set()


# ---- drivers ---------------------------------------------------------------------------------
def w_hist(run, st_, k, item):
    n, codes = item
    names = sorted(codes)
    groups = {"c": [x for x in names if x.split(":")[1] == "c" and not x.startswith("x:")],
              "s": [x for x in names if x.split(":")[1] == "s" and not x.startswith("x:")],
              "x": [x for x in names if x.startswith("x:")]}

    nomem = [x for x in groups["x"] if "(%esi)" not in x and "0x100" not in x and not x[2:].startswith(("movs", "lods", "cmps", "rep"))
             and "pushw" not in x and "popw" not in x and "%edi" not in x and "%esi" not in x]

    @st.composite
    def hist(draw):
        base = draw(st.sampled_from(["c", "s"]))
        if draw(st.integers(0, 9)) < 6:
            # accesses on a per-history grid of disjoint cells: no partial overlap by construction
            cells = []
            for slot in (0, 1):
                w = draw(st.sampled_from([8, 16, 32]))
                cells.append((w, slot * 4 + draw(st.integers(0, 4 - w // 8))))
            pool = [x for x in groups[base] if (int(x.split(":")[2]), int(x.split(":")[3])) in cells] * 2 + nomem
            h = draw(st.lists(st.sampled_from(pool), min_size=1, max_size=run.pick(8, 12)))
            return [draw(st.sampled_from(["x:cld", "x:std"]))] + h
        pool = groups[base] * 3 + [x for x in groups["x"] if ("0x100" in x) == (base == "c") or "(%esi)" not in x and "0x100" not in x]
        return draw(st.lists(st.sampled_from(pool), min_size=1, max_size=run.pick(8, 12)))

    def orc(h):
        r = run_history(h, codes, salt=k)
        if isinstance(r, str):
            st_.exclude(r.split(":", 1)[1])
            return None
        st_.klass("history_len_%d" % len(h))
        st_.klass("history_class_" + run_history.last_class)
        first = None
        for sig, det in r:
            if sig in run.known:
                st_.known_hits[sig] += 1
            elif first is None:
                first = (sig, det)
        if first is None:
            if sum(1 for x in h if x.startswith("store")) >= 1 and any(x.startswith("load") for x in h) and run_history.last_class == "clean":
                st_.nt(tuple(h))
                st_.sample(list(h))
        return first
    runner.hyp_drive(run, st_, hist(), orc, n, run.seed * 1000 + k, to_case=lambda h: {"history": list(h)})


def w_exhaustive(run, st_, k, item):
    hs, codes, baseline = item
    for h in hs:
        st_.ev()
        r = run_history(h, codes, readback=False)      # the final load is the read-back
        if isinstance(r, str):
            st_.exclude(r.split(":", 1)[1])
            continue
        key = hist_key(h)
        if not r:
            st_.klass("exhaustive_ok")
            st_.nt(tuple(h))
            if key in baseline:
                st_.klass("exhaustive_listed_but_now_passing")
            continue
        st_.klass("exhaustive_with_failures")
        st_.failing_keys = getattr(st_, "failing_keys", [])
        st_.failing_keys.append(key)
        if key in baseline:
            st_.known_hits[("exhaustive-baseline",)] += 1
            continue
        sig = ("exhaustive-new-failing-configuration", overlap_class(h[:-1], "c" if h[-1].split(":")[1] == "c" else "esi",
                                                                       int(h[-1].split(":")[3]) + (CONST_BASE if h[-1].split(":")[1] == "c" else 0), int(h[-1].split(":")[2])))
        sig = runner.norm_sig(sig)
        if not any(f[0] == sig for f in st_.failures):
            st_.fail(sig, "history %s is not in the committed baseline of failing overlap configurations: %s" % (h, r[0][1]), {"history": list(h), "readback": False, "exhaustive": True})


def _collect(run, st_, k, item):
    hs, codes = item
    st_.keys = []
    for h in hs:
        r = run_history(h, codes, readback=False)
        if not isinstance(r, str) and r:
            st_.samples.append(hist_key(h))


def collect_failing(run, hs, codes):
    import multiprocessing
    ctx = multiprocessing.get_context("fork")
    runner._WORKER_FN, runner._WORKER_RUN = _collect, run
    keys = []
    with ctx.Pool(16) as pool:
        for st_ in pool.imap(runner._call, list(enumerate([(c, codes) for c in runner.chunks(hs, 64)]))):
            keys += st_.samples
    return keys


def rep_histories(codes):
    """every rep form x direction x concrete count (incl. 0) x data set-ups that make the compared data concrete (equal / different)"""
    reps = [n for n in sorted(codes) if n.startswith("x:rep")]
    fill = lambda: ["x:movl $5, %ecx", "x:rep stosb"]
    setups = {"symbolic-data": [],
              # both compared regions hold 0x7f: repe runs the full count, repne stops at once
              "equal-data": ["x:cld", "x:movb $0x7f, %al", "x:movl %esi, %edi"] + fill() + ["x:leal 16(%esi), %edi"] + fill() + ["x:leal 16(%esi), %edi"],
              # the second region holds another byte: repe stops at once, repne runs the full count
              "different-data": ["x:cld", "x:movb $0x7f, %al", "x:movl %esi, %edi"] + fill() + ["x:movb $0x11, %al", "x:leal 16(%esi), %edi"] + fill() + ["x:leal 16(%esi), %edi"],
              # scas: al equal to / different from the scanned bytes
              "scan-equal": ["x:cld", "x:movb $0x7f, %al", "x:leal 16(%esi), %edi"] + fill() + ["x:leal 16(%esi), %edi"],
              "scan-different": ["x:cld", "x:movb $0x7f, %al", "x:leal 16(%esi), %edi"] + fill() + ["x:movb $0x11, %al", "x:leal 16(%esi), %edi"]}
    out = []
    for d in ("x:cld", "x:std"):
        for sname, setup in sorted(setups.items()):
            if d == "x:std" and sname != "symbolic-data":
                continue            # the set-ups fill upwards
            for n in (["x:movl $0, %ecx"], ["x:movl $1, %ecx"], ["x:movl $3, %ecx"], ["x:movl $5, %ecx"],
                      # the count also lives somewhere else (copied to / from another register, through the stack)
                      ["x:movl $3, %ecx", "x:movl %ecx, %edx"], ["x:movl $3, %edx", "x:movl %edx, %ecx"], ["x:pushl $0x55", "x:movl $3, %ecx", "x:pushl %ecx", "x:popl %edx"]):
                # the zero flag the rep instruction finds on entry: symbolic, concretely 1 (xor) or concretely "count == 0" (test): the
                # architectural termination test looks at ZF only AFTER a step of cmps / scas, never before the first one
                for zf_entry in ([], ["x:xorl %edx, %edx"], ["x:testl %ecx, %ecx"]):
                    if zf_entry and len(n) > 1:
                        continue
                    for r in reps:
                        h = ([d] if sname == "symbolic-data" else []) + setup + n + zf_entry + [r]
                        if all(x in codes for x in h):
                            out.append(h)
    # concrete sub-register arithmetic whose folding depends on the operand width
    for h in (["x:movb $0x81, %bl", "x:rorb $12, %bl"], ["x:movb $0x81, %bl", "x:rorb $7, %bl"], ["x:movw $0x8001, %bx", "x:rorw $20, %bx"], ["x:movw $0x8001, %bx", "x:rorw $9, %bx"],
              ["x:movl $12, %ecx", "x:movb $0x81, %bl", "x:rorb %cl, %bl"], ["x:movl $20, %ecx", "x:movw $0x8001, %bx", "x:rorb %cl, %bl"], ["x:movl $0x12345678, %eax", "x:cwtl"],
              ["x:movw $0x8234, %ax", "x:cwtl"], ["x:movb $0x80, %ah", "x:movb $0x7f, %al", "x:cbtw"], ["x:movl $0x12345678, %eax", "x:movb $0x80, %ah", "x:cbtw", "x:cwtl"]):
        if all(x in codes for x in h):
            out.append(h)
    return out


def w_rep(run, st_, k, item):
    hs, codes = item
    for h in hs:
        st_.ev()
        r = run_history(h, codes, salt=k)
        if isinstance(r, str):
            st_.exclude(r.split(":", 1)[1])
            continue
        st_.klass("rep_history_class_" + run_history.last_class)
        if not r:
            st_.nt(tuple(h))
            st_.sample(list(h))
        for sig, det in r:
            if sig in run.known:
                st_.known_hits[sig] += 1
            elif not any(f[0] == sig for f in st_.failures):
                st_.fail(sig, det, {"history": list(h)})


def exhaustive_histories(codes, bases):
    out = []
    for b in bases:
        stores = ["store:%s:%d:%d:%s" % (b, w, off, DREGS[w][(off + w) % 3]) for w in (8, 16, 32) for off in range(8)]
        loads = ["load:%s:%d:%d:%s" % (b, w, off, DREGS[w][3]) for w in (8, 16, 32) for off in range(8)]
        stores = [s for s in stores if s in codes]
        loads = [l for l in loads if l in codes]
        for s1 in stores:
            for l in loads:
                out.append([s1, l])
                if b == "s":
                    out.append(["x:leal 1(%esi), %esi", s1, l])
            for s2 in stores:
                for l in loads[::1]:
                    out.append([s1, s2, l])
        # three stores: any store, any second store, then a store at the second one's address that is at least as wide (the "covering"
        # store: the cell at that address is replaced, and whatever else it overlaps must still be trimmed); byte loads everywhere and the
        # two aligned dword loads read the result back
        rb = [l for l in loads if int(l.split(":")[2]) == 8 or (int(l.split(":")[2]) == 32 and int(l.split(":")[3]) in (0, 4))]
        for s1 in stores:
            for s2 in stores:
                w2, o2 = int(s2.split(":")[2]), int(s2.split(":")[3])
                for w3 in (8, 16, 32):
                    if w3 < w2:
                        continue
                    s3 = "store:%s:%d:%d:%s" % (b, w3, o2, DREGS[w3][((o2 + w3) % 3 + 1) % 3])
                    if s3 not in codes:
                        continue
                    for l in rb:
                        out.append([s1, s2, s3, l])
        # tilings of one dword by three or four narrower stores (a string written byte by byte, a word and two bytes, ...), constants and
        # registers, written upwards and downwards, optionally on top of an earlier constant dword; then one load of every width at offsets 0..3
        for parts in ([1, 1, 1, 1], [2, 1, 1], [1, 2, 1], [1, 1, 2], [2, 2]):
            offs, o = [], 0
            for p in parts:
                offs.append((o, p * 8))
                o += p
            for kinds in ("iiii", "rrrr", "irir", "riri"):
                for order in (1, -1):
                    for under in (False, True):
                        h = ["storei:%s:32:0" % b] if under else []
                        for j, (off, w) in list(enumerate(offs))[::order]:
                            h.append(("storei:%s:%d:%d" % (b, w, off)) if kinds[j] == "i" else ("store:%s:%d:%d:%s" % (b, w, off, DREGS[w][j % 3])))
                        if not all(x in codes for x in h):
                            continue
                        for l in loads:
                            lw, lo = int(l.split(":")[2]), int(l.split(":")[3])
                            if lo <= 3 and lw // 8 >= 2:
                                out.append(h + [l])
                                if b == "s" and kinds in ("iiii", "riri"):
                                    # the same through a pointer that is itself bound to base + constant: every address is
                                    # (init_esi + 1) + offset and has to be reduced before it can meet the cell it names
                                    out.append(["x:leal 1(%esi), %esi"] + h + [l])
    return out


def main(run):
    refs.need("as")
    steps = build_tables()
    codes = assemble(run, steps)
    run.rule = ("histories: Hypothesis lists (1..%d steps) over %d assembled steps (stores/loads of width 8/16/32 at offsets 0..7 from a constant or the symbolic base, "
                "integer instructions, push/pop, rep string instructions with concrete count) + exhaustive <= 2 stores + 1 load, 3 stores with a covering third store, dword tilings (%s base kinds); invariant after every step on 3 valuations. "
                "non-trivial = a history with a store and a later load that held; distinct = the step list" % (run.pick(8, 12), len(codes), run.pick("symbolic", "both")))
    run.assumptions = ["the model executes the same lifted lists with vlib/irsem.py (C04's lifter findings cannot leak in)", "constant-base and symbolic-base addresses are never mixed in one history",
                       "valuations place init_esi / init_edi / init_esp in disjoint regions (the machine treats different symbolic bases as non-aliasing by design)",
                       "the shared default eval_cache is cleared per history (C12's subject)"]
    runner.pmap(run, w_hist, [(run.pick(250, 3000), codes)] * 16)
    runner.pmap(run, w_rep, [(c, codes) for c in runner.chunks(rep_histories(codes), 12)])
    hs = exhaustive_histories(codes, run.pick(["s"], ["s", "c"]))
    baseline = load_baseline()
    run.extra["exhaustive_histories"] = len(hs)
    run.extra["baseline_failing_configurations"] = len(baseline)
    if os.environ.get("VERIF_C07_WRITE_BASELINE"):
        # developer mode: (re)generate the committed baseline from the unchanged tree (both base kinds)
        hs = exhaustive_histories(codes, ["s", "c"])
        keys = collect_failing(run, hs, codes)
        os.makedirs(os.path.dirname(BASELINE), exist_ok=True)
        with open(BASELINE, "w") as f:
            json.dump({"what": "histories of <= 2 stores (or 3 with a covering third store, or a tiling of one dword) + 1 load (width 8/16/32, offsets 0..7, constant and symbolic base) whose final load disagrees with the byte model on the unchanged tree",
                       "failing": sorted(keys)}, f, indent=0)
        print("wrote %d failing configurations of %d" % (len(keys), len(hs)))
        baseline = set(keys)
    runner.pmap(run, w_exhaustive, [(c, codes, baseline) for c in runner.chunks(hs, 64)])
    run.exhaustive = True


def replay(run, case):
    steps = build_tables()
    codes = assemble(run, dict((n, steps[n]) for n in case["history"]))
    with runner.quiet():
        r = run_history(case["history"], codes, readback=case.get("readback", True))
    if isinstance(r, str) or not r:
        return None
    if run.want_sig == ("exhaustive-baseline",):
        return (("exhaustive-baseline",), r[0][1])
    for sig, det in r:
        if run.want_sig is None or sig == run.want_sig:
            return (sig, det)
    return None
