"""C18 - PowerPC words decode unambiguously, as the architecture's opcode map says, and re-encode to themselves.

Words: (1) the full opcode grid 64 primary x 1024 extended opcodes x Rc with operand fields from {0,1,31}^3; (2) immediate boundaries of the
D-forms; (3) branch forms over all BO x BI x displacement boundaries x AA x LK; (4) exhaustive special fields (all SPR numbers, CRM / FM masks,
rotate fields, TO, segment registers, CR fields); (5) Hypothesis: uniformly random words and assigned opcodes with random operand bits.
Per word:
    * at most one class of tab_mn claims it (the claim is evaluated for every class, not through class_from_op);
    * if it decodes: the base mnemonic and the Rc / OE / LK / AA suffixes are the ones vlib/ppcref.py (hand-written map of the 32-bit
      architecture, cross-checked against LLVM's disassembler at start-up) assigns to its primary / extended opcode;
      bin() gives back the word; str() returns text; ppc_mn.asm(text) gives back the word.
"""
import os
import sys
import json
import struct
import hashlib
from hypothesis import strategies as st
from vlib import runner, ppcref

# simplified mnemonics miasmX prints, with the base mnemonic the architecture derives them from
SIMPLIFIED = {"li": "addi", "lis": "addis", "blr": "bclr", "bctr": "bcctr", "nop": "ori", "mr": "or",
              "blt": "bc", "bgt": "bc", "beq": "bc", "bso": "bc", "bge": "bc", "ble": "bc", "bne": "bc", "bns": "bc", "bdnz": "bc", "bdz": "bc"}


def innermost(tb):
    fn = "?"
    while tb is not None:
        if "ppc_arch" in tb.tb_frame.f_code.co_filename:
            fn = tb.tb_frame.f_code.co_name
        tb = tb.tb_next
    return fn


def judge(w):
    """-> ('undecoded', why) | ('ok', info) | ('fail', [(sig, detail)])"""
    from miasmx.arch import ppc_arch as p
    fails = []
    claims = [c for c in p.tab_mn if c.check(w)]
    ref = ppcref.assigned(w)
    if len(claims) > 1:
        fails.append((("ambiguous",) + tuple(sorted(c.__name__ for c in claims)), "%08x is claimed by %s" % (w, [c.__name__ for c in claims])))
        return "fail", fails
    rb = ref[0].rstrip(".") if ref else "-"          # the architecture's base mnemonic: part of every signature
    if rb in ("bc", "bclr", "bcctr"):
        # conditional branches: the BO class and whether BI names a field other than CR0 are part of the bucket (the existing
        # defects of these renderers are confined to some of the classes)
        bo, bi = (w >> 21) & 31, (w >> 16) & 31
        rb += ":" + ("always" if bo & 0x14 == 0x14 else "ctr-only" if bo & 0x10 else "cond-only" if bo & 0x04 else "cond+ctr") + (":hint" if bo & 1 else "") + (":cr0" if bi < 4 else ":crN")
    if not claims:
        # no class claims the word: the decoder entry point must refuse it too (it must not answer from some other state)
        try:
            i = p.ppc_mn(w)
        except Exception:
            return "undecoded", ("unassigned" if ref is None else "assigned:" + ref[0])
        fails.append((("decodes-a-word-no-class-claims", type(i).__name__, rb), "%08x: no class of tab_mn claims the word, but ppc_mn(word) returns a %s" % (w, type(i).__name__)))
        try:
            if i.bin() != w:
                fails.append((("bin-differs", type(i).__name__, rb), "%08x (unclaimed word decoded as %s): bin() gives %08x" % (w, type(i).__name__, i.bin())))
        except Exception:
            pass
        return "fail", fails
    cls = claims[0]
    try:
        i = p.ppc_mn(w)
    except ValueError as e:
        # the class's masks match but a field refuses the value: the word does not decode
        return "undecoded", "field-refused:" + cls.__name__
    except Exception as e:
        fails.append((("decode-raises", cls.__name__, rb, type(e).__name__), "%08x: ppc_mn(word) raised %s: %s" % (w, type(e).__name__, e)))
        return "fail", fails
    # ---- mnemonic
    name = None
    try:
        name = i.getname()
    except Exception as e:
        fails.append((("name-raises", cls.__name__, rb, type(e).__name__), "%08x (%s): getname() raised %s: %s" % (w, cls.__name__, type(e).__name__, e)))
    if name is not None:
        if ref is None:
            fails.append((("claims-unassigned-opcode", cls.__name__), "%08x decodes as %s (%s) but the architecture assigns no instruction to primary %d / extended %d" % (
                w, name, cls.__name__, w >> 26, (w >> 1) & 1023)))
        else:
            base, flags = ref
            n = name.lower()
            dotted = n.endswith(".")
            n0 = n.rstrip(".")
            want_dot = ("dot" in flags) or ("rc" in flags and (w & 1))
            cands = set([base.rstrip(".")])
            if "oe" in flags and (w >> 10) & 1:
                cands = set([base + "o"])
            if "lk" in flags or "aa" in flags:
                suf = ("l" if (w & 1) and "lk" in flags else "") + ("a" if (w & 2) and "aa" in flags else "")
                cands = set([base + suf])
            ok = n0 in cands
            if base in ("b", "bc", "bclr", "bcctr"):
                # miasmX has its own simplified branch mnemonics (BLRDNZ, BGEAL ...): the family must be right; LK / AA letters are
                # checked for the unconditional branch only, where they cannot be confused with condition letters
                stem = {"b": n0.rstrip("al") == "b" and sorted(n0[1:]) == sorted(("l" if w & 1 else "") + ("a" if w & 2 else "")),
                        "bc": n0.startswith("b") and not n0.startswith(("blr", "bctr")),
                        "bclr": n0.startswith("blr") or n0 == "bclr" or n0 == "bclrl",
                        "bcctr": n0.startswith("bctr") or n0 in ("bcctr", "bcctrl")}[base]
                ok = bool(stem)
            elif "family" in flags:
                ok = n0.startswith(base)
            elif not ok:
                for s_, b_ in SIMPLIFIED.items():
                    if b_ == base.rstrip(".") and n0 == s_:
                        ok = True
            if not ok:
                fails.append((("mnemonic", cls.__name__, rb), "%08x decodes as %s (%s); the architecture assigns %s to primary %d / extended %d%s" % (
                    w, name, cls.__name__, base, w >> 26, (w >> 1) & 1023, " with OE set" if "oe" in flags and (w >> 10) & 1 else "")))
            elif dotted != bool(want_dot) and ("rc" in flags or "dot" in flags):
                fails.append((("record-bit-suffix", cls.__name__, rb), "%08x decodes as %s; Rc bit is %d" % (w, name, w & 1)))
    # ---- re-encoding
    try:
        b = i.bin()
        if b != w:
            fails.append((("bin-differs", cls.__name__, rb), "%08x (%s): bin() gives %08x" % (w, name, b)))
    except Exception as e:
        fails.append((("bin-raises", cls.__name__, rb, type(e).__name__), "%08x (%s): bin() raised %s: %s" % (w, name, type(e).__name__, e)))
    # ---- rendering and the assembly fixpoint
    try:
        text = str(i)
        if not isinstance(text, str):
            raise TypeError("str() returned %r" % type(text).__name__)
    except Exception as e:
        if name is None:
            return "fail", fails
        fails.append((("render-raises", cls.__name__, rb, type(e).__name__), "%08x (%s): str() raised %s: %s" % (w, name, type(e).__name__, e)))
        return "fail", fails
    try:
        r = p.ppc_mn.asm(text)
        w2 = struct.unpack(">L", r[0])[0]
        if w2 != w:
            fails.append((("asm-fixpoint", cls.__name__, rb, field_diff(w, w2)), "%08x renders as '%s', which assembles to %08x" % (w, text, w2)))
    except Exception as e:
        fails.append((("asm-raises", cls.__name__, rb, type(e).__name__), "%08x renders as '%s'; asm() of that text raised %s: %s" % (w, text, type(e).__name__, str(e)[:120])))
    if fails:
        return "fail", fails
    return "ok", (cls.__name__, text, i)


def field_diff(a, b):
    """which 5/6-bit groups of the two words differ (instruction bit numbering 0..31 from the left)"""
    x = a ^ b
    groups = [("po", 26, 6), ("f6-10", 21, 5), ("f11-15", 16, 5), ("f16-20", 11, 5), ("f21-25", 6, 5), ("f26-30", 1, 5), ("b31", 0, 1)]
    # the leftmost differing group names the bucket
    return [n for n, sh, l in groups if (x >> sh) & ((1 << l) - 1)][0]


def special_field_words():
    """instructions whose operands are not general registers (segment / special-purpose / time-base registers, CR fields and bits, field
    masks, trap conditions): every value of the special field, judged word by word against the same baseline - their buckets hold so many
    existing renderer / assembler defects that a new one would not change any signature"""
    X = lambda xo, a=0, b=0, c=0, rc=0, po=31: (po << 26) | (a << 21) | (b << 16) | (c << 11) | (xo << 1) | rc
    out = []
    for sr in range(16):
        for r in (0, 3, 31):
            out += [X(210, r, sr), X(595, r, sr), X(242, r, 0, 5), X(659, r, 0, 5)]       # mtsr mfsr mtsrin mfsrin
    for spr in range(1024):
        out += [X(467, 3) | (spr << 11), X(339, 3) | (spr << 11), X(371, 3) | (spr << 11)]      # mtspr mfspr mftb
    for bf in range(8):
        for bfa in range(8):
            out += [X(0, bf << 2, bfa << 2, po=19), X(64, bf << 2, bfa << 2, po=63)]         # mcrf mcrfs
        for l in (0, 1):
            out += [X(0, (bf << 2) | l, 3, 4), X(32, (bf << 2) | l, 3, 4), (11 << 26) | (((bf << 2) | l) << 21) | (3 << 16) | 0x7FFF, (10 << 26) | (((bf << 2) | l) << 21) | (3 << 16) | 0x8000]
        out += [X(512, bf << 2), X(0, bf << 2, 1, 2, po=63), X(32, bf << 2, 1, 2, po=63)]       # mcrxr fcmpu fcmpo
        for u in range(16):
            out.append(X(134, bf << 2, 0, u << 1, po=63))                                  # mtfsfi
    for m in range(256):
        out += [X(144, 3) | (m << 12), X(711, 0, 0, 0, po=63) | (m << 17) | (5 << 11)]       # mtcrf mtfsf
    for xo in (257, 129, 193, 225, 33, 449, 289, 417):
        for bt in (0, 1, 5, 31):
            for ba in (0, 2, 31):
                for bb in (0, 3, 31):
                    out.append(X(xo, bt, ba, bb, po=19))                                    # CR logical operations
    for to in range(32):
        out += [X(4, to, 3, 4), (3 << 26) | (to << 21) | (3 << 16) | 0x10]                  # tw twi
    for bt in range(32):
        out += [X(70, bt, po=63), X(38, bt, po=63), X(70, bt, rc=1, po=63)]                 # mtfsb0 mtfsb1
    return sorted(set(out))


def branch_words():
    """the deterministic branch sub-space judged word by word against baselines/c18_branches.json"""
    out = []
    for bo in range(32):
        for bi in range(32):
            for bd in (0, 4, 0x10, 0x7FFC, 0x8000, 0xFFFC):
                for aalk in range(4):
                    out.append((16 << 26) | (bo << 21) | (bi << 16) | bd | aalk)
            for xo in (16, 528):
                for lk in (0, 1):
                    for bh in (0, 1, 3):
                        out.append((19 << 26) | (bo << 21) | (bi << 16) | (bh << 11) | (xo << 1) | lk)
    return out


BASELINE = os.path.join(os.path.dirname(os.path.dirname(os.path.abspath(__file__))), "baselines", "c18_branches.json")
_BASE = None


def baseline():
    global _BASE
    if _BASE is None:
        _BASE = set()
        if os.path.exists(BASELINE):
            with open(BASELINE) as f:
                _BASE = set(json.load(f)["failing"])
    return _BASE


def w_branch(run, st_, k, words):
    base = baseline()
    with runner.quiet():
        for w in words:
            st_.ev()
            r = judge(w)
            key = "%08x" % w
            if r[0] == "fail":
                st_.failing_words = getattr(st_, "failing_words", [])
                st_.samples_fail = None
                st_.klass("branch_word_failing")
                if key in base:
                    st_.known_hits[("branch-baseline",)] += 1
                else:
                    sig = runner.norm_sig(("branch-word-newly-failing", r[1][0][0][0]))
                    if not any(f[0] == sig for f in st_.failures):
                        st_.fail(sig, "%s is not in the committed baseline of failing branch words: %s" % (key, r[1][0][1]), {"word": key, "branch": True})
            else:
                st_.klass("branch_word_" + r[0])
                if r[0] == "ok":
                    st_.nt(w)
                if key in base:
                    st_.klass("branch_word_listed_but_now_passing")


def w_words(run, st_, k, words):
    with runner.quiet():
        for w in words:
            account(run, st_, w, judge(w))


def account(run, st_, w, r):
    st_.ev()
    kind = r[0]
    if kind == "undecoded":
        st_.klass("undecoded:" + r[1].split(":")[0])
        return None
    if kind == "ok":
        st_.klass("decoded_ok:" + r[1][0])
        st_.nt(w)
        # an instruction object decoded earlier (same class) must still be its own word and text after this decode
        held = getattr(st_, "held", None)
        if held is None:
            held = st_.held = {}
        h = held.get(r[1][0])
        if h is not None and h[0] != w:
            try:
                same = (h[2].bin() == h[0]) and (str(h[2]) == h[1])
            except Exception:
                same = False
            if not same:
                sig = runner.norm_sig(("earlier-object-changed", r[1][0]))
                if sig in run.known:
                    st_.known_hits[sig] += 1
                elif not any(f[0] == sig for f in st_.failures):
                    st_.fail(sig, "the %s object decoded from %08x ('%s') re-encodes / renders differently after %08x was decoded" % (r[1][0], h[0], h[1], w), {"word": "%08x" % h[0], "then": "%08x" % w})
                held[r[1][0]] = (w, r[1][1], r[1][2])
        elif h is None:
            held[r[1][0]] = (w, r[1][1], r[1][2])
        if st_.classes["decoded_ok:" + r[1][0]] <= 1:
            st_.sample(["%08x" % w, r[1][1]])
        return None
    first = None
    for sig, det in r[1]:
        sig = runner.norm_sig(sig)
        st_.klass("failing:" + sig[0])
        if sig in run.known:
            st_.known_hits[sig] += 1
        else:
            if not any(f[0] == sig for f in st_.failures):
                st_.fail(sig, det, {"word": "%08x" % w})
            first = first or (sig, det)
    return first


def grid(tier, seed):
    pats = [(a, b, c) for a in (0, 1, 31) for b in (0, 1, 31) for c in (0, 1, 31)]
    out = []
    for po in range(64):
        for xo in range(1024):
            h = int.from_bytes(hashlib.blake2b(repr((seed, po, xo)).encode(), digest_size=4).digest(), "little")
            for rc in (0, 1):
                sel = pats if tier == "thorough" else [(0, 0, 0), (0, 0, 31)] + [pats[(h + 7 * j + rc) % 27] for j in range(2)]
                for rt, ra, rb in sel:
                    out.append((po << 26) | (rt << 21) | (ra << 16) | (rb << 11) | (xo << 1) | rc)
    # every cell the architecture assigns (X / XO / XL / A forms): the complete 3^3 operand-field pattern x Rc x OE in both tiers, so
    # that a class claiming one particular operand triple of an assigned cell (a "simplified mnemonic" made its own class:
    # tw 31,0,0 = trap) is always met, not with probability 2/27
    if tier != "thorough":
        seen = set()
        for w, _ in ppcref.entries():
            po = w >> 26
            if po in ppcref.PO:
                continue
            cell = (po, w & 0x7FE)
            if cell in seen:
                continue
            seen.add(cell)
            for rt, ra, rb in pats:
                for low in (0, 1, 0x400, 0x401):
                    out.append((po << 26) | (rt << 21) | (ra << 16) | (rb << 11) | ((w & 0x7FE) ^ (low & 0x400)) | (low & 1))
    return out


def structured():
    out = []
    imms = [0, 1, 2, 0x7FFF, 0x8000, 0x8001, 0xFFFF, 0xFFFE, 0x00FF, 0x0100, 0x1234]
    for po in ppcref.PO:
        for rt in (0, 1, 31):
            for ra in (0, 1, 31):
                for imm in imms:
                    out.append((po << 26) | (rt << 21) | (ra << 16) | imm)
    # (conditional branches: see branch_words())
    for li in (0, 4, 0x10, 0x1FFFFFC, 0x2000000, 0x3FFFFFC, 0x1234564, 0x3000000):
        for aalk in range(4):
            out.append((18 << 26) | li | aalk)
    # special-purpose registers, time base, segment registers
    for spr in range(1024):
        for xo in (339, 467, 371):
            for rt in (0, 3, 31):
                out.append((31 << 26) | (rt << 21) | (spr << 11) | (xo << 1))
    for sr in range(32):
        for xo in (210, 595):
            out.append((31 << 26) | (3 << 21) | (sr << 16) | (xo << 1))
    # masks
    for m in range(256):
        out.append((31 << 26) | (3 << 21) | (m << 12) | (144 << 1))
        out.append((31 << 26) | (3 << 21) | (1 << 20) | (m << 12) | (144 << 1))
        for rc in (0, 1):
            out.append((63 << 26) | (m << 17) | (3 << 11) | (711 << 1) | rc)
    # rotates
    for po in (20, 21, 23):
        for sh in (0, 1, 15, 16, 31):
            for mb in (0, 1, 15, 31):
                for me in (0, 1, 30, 31):
                    for rc in (0, 1):
                        out.append((po << 26) | (3 << 21) | (4 << 16) | (sh << 11) | (mb << 6) | (me << 1) | rc)
    # traps, CR fields, CR bits, immediates of X-forms
    for to in range(32):
        out.append((3 << 26) | (to << 21) | (4 << 16) | 8)
        out.append((31 << 26) | (to << 21) | (4 << 16) | (5 << 11) | (4 << 1))
    for bf in range(8):
        for bfa in range(8):
            out.append((19 << 26) | (bf << 23) | (bfa << 18))
            out.append((63 << 26) | (bf << 23) | (bfa << 18) | (64 << 1))
        for l in (0, 1):
            for po, xo in ((31, 0), (31, 32)):
                out.append((po << 26) | (bf << 23) | (l << 21) | (4 << 16) | (5 << 11) | (xo << 1))
            for po in (10, 11):
                out.append((po << 26) | (bf << 23) | (l << 21) | (4 << 16) | 0x18)
        for xo in (0, 32):
            out.append((63 << 26) | (bf << 23) | (1 << 16) | (3 << 11) | (xo << 1))
        for u in (0, 1, 15):
            for rc in (0, 1):
                out.append((63 << 26) | (bf << 23) | (u << 12) | (134 << 1) | rc)
        out.append((31 << 26) | (bf << 23) | (512 << 1))
    for xo in ppcref.X19:
        if ppcref.X19[xo].startswith("cr"):
            for bt in (0, 1, 5, 31):
                for ba in (0, 2, 31):
                    for bb in (0, 3, 31):
                        out.append((19 << 26) | (bt << 21) | (ba << 16) | (bb << 11) | (xo << 1))
    for bt in range(32):
        for xo in (38, 70):
            for rc in (0, 1):
                out.append((63 << 26) | (bt << 21) | (xo << 1) | rc)
    for nb in range(32):
        for xo in (597, 725, 824):
            out.append((31 << 26) | (7 << 21) | (12 << 16) | (nb << 11) | (xo << 1))
    # floating point A-forms with all four register fields
    for po, tab in ((59, ppcref.A59), (63, ppcref.A63)):
        for xo in tab:
            for a in (0, 1, 31):
                for b in (0, 2, 31):
                    for c in (0, 3, 31):
                        for rc in (0, 1):
                            out.append((po << 26) | (1 << 21) | (a << 16) | (b << 11) | (c << 6) | (xo << 1) | rc)
    return out


def w_hyp(run, st_, k, n):
    ents = [w for w, _ in ppcref.entries()]

    @st.composite
    def word(draw):
        mode = draw(st.integers(0, 3))
        if mode == 0:
            return draw(st.integers(0, 0xFFFFFFFF))
        base = draw(st.sampled_from(ents))
        po = base >> 26
        r = draw(st.integers(0, 0x3FFFFFF))
        if po in ppcref.PO:
            return (po << 26) | r
        if po in (59, 63) and ((base >> 1) & 31) in (ppcref.A59 if po == 59 else ppcref.A63):
            return (po << 26) | (r & ~0x3E) | (base & 0x3E)
        # X-forms: keep the extended opcode, randomise everything else (including bit 31 and, for XO-forms, the OE position)
        if mode == 3 and po == 31 and ((base >> 1) & 511) in ppcref.XO31_OE:
            return (po << 26) | (r & ~0x3FE) | (base & 0x3FE)
        return (po << 26) | (r & ~0x7FE) | (base & 0x7FE)

    def orc(w):
        with runner.quiet():
            return account(run, st_, w, judge(w))
    # account() has already recorded the failure on st_; the driver only needs to keep searching
    runner.hyp_drive(run, runner.Stats(), word(), lambda w: None if orc(w) is None else None, n, run.seed * 1000 + k)


def main(run):
    run.rule = ("words: opcode grid 64 x 1024 x Rc x %s operand triples from {0,1,31}^3; D-form immediate boundaries; branches over all BO x BI x displacement boundaries x AA x LK; "
                "all SPR numbers, CRM/FM masks, rotate fields, TO, SR, CR fields; Hypothesis random words and assigned opcodes with random operand bits. "
                "non-trivial = a word that decodes and passes every clause (unique class, architectural mnemonic and suffixes, bin(), str(), asm fixpoint); distinct = the word" % run.pick("4", "all 27"))
    run.assumptions = ["vlib/ppcref.py is the architecture's opcode map (hand-written; cross-checked with llvm-mc at start-up when installed)",
                       "simplified mnemonics are accepted when they derive from the assigned base mnemonic",
                       "a word whose class refuses a field value (ValueError from ppc_mn(word)) does not decode",
                       "completeness (every assigned word decodes) is not part of the property and is only counted"]
    n, bad = ppcref.selftest()
    if bad:
        raise runner.Inconclusive("reference opcode map disagrees with llvm-mc: %s" % bad[:5])
    run.extra["reference_entries_confirmed_by_llvm"] = n
    bw = branch_words() + special_field_words()
    if os.environ.get("VERIF_C18_WRITE_BASELINE"):
        # developer mode: regenerate the committed baseline from the unchanged tree
        with runner.quiet():
            failing = sorted("%08x" % w for w in bw if judge(w)[0] == "fail")
        os.makedirs(os.path.dirname(BASELINE), exist_ok=True)
        with open(BASELINE, "w") as f:
            json.dump({"what": "conditional-branch words (bc: all BO x BI x 6 displacements x AA x LK; bclr / bcctr: all BO x BI x BH x LK) and special-field words (every SR / SPR / TBR / CR field / FXM / FLM / TO value) that fail some clause of C18 on the unchanged tree", "failing": failing}, f, indent=0)
        print("wrote %d failing of %d branch words" % (len(failing), len(bw)))
    run.extra["branch_words"] = len(bw)
    run.extra["baseline_failing_branch_words"] = len(baseline())
    runner.pmap(run, w_branch, list(runner.chunks(bw, 2048)))
    words = grid(run.tier, run.seed) + structured()
    run.extra["enumerated_words"] = len(words)
    runner.pmap(run, w_words, list(runner.chunks(words, 4096)))
    runner.pmap(run, w_hyp, [run.pick(3000, 60000)] * 16)


def replay(run, case):
    w = int(case["word"], 16)
    if "then" in case:
        with runner.quiet():
            a = judge(w)
            if a[0] != "ok":
                return None
            judge(int(case["then"], 16))
            try:
                same = a[1][2].bin() == w and str(a[1][2]) == a[1][1]
            except Exception:
                same = False
        return None if same else (("earlier-object-changed", a[1][0]), "the object decoded from %08x changed after %s was decoded" % (w, case["then"]))
    with runner.quiet():
        r = judge(w)
    if r[0] != "fail":
        return None
    if run.want_sig == ("branch-baseline",):
        return (("branch-baseline",), r[1][0][1])
    if case.get("branch"):
        return (("branch-word-newly-failing", r[1][0][0][0]), r[1][0][1]) if ("%08x" % w) not in baseline() else None
    for sig, det in r[1]:
        sig = runner.norm_sig(sig)
        if run.want_sig is None or sig == run.want_sig:
            return (sig, det)
    return None
