"""C05 - expression simplification preserves meaning (value and width) and terminates.


Generators: random well-typed trees (exprgen) + one template per rewrite rule (rulegen);
8-bit two-variable rule instances are evaluated on ALL 2^16 valuations.
Oracle: reference interpreter vlib/irsem.py.
Failures are reduced to a minimal failing sub-expression, generalised (children replaced by fresh
identifiers while the failure persists) and the resulting *shape* is the root-cause signature.
"""
import sys
MEM_LIMIT = 6 << 30       # bytes of address space for this check's processes (see vlib/main.py)
from hypothesis import strategies as st
from vlib import runner, irsem, exprgen, rulegen
from vlib.exprgen import build, sshow, swidth, sids, snodes

NVAL = 16


class Budget(BaseException):
    pass


_counter = [0, 0]


def install_counter():
    from miasmx.expression import expression_helper as eh
    if getattr(eh, "_verif_wrapped", False):
        return
    orig = eh._expr_simp

    def counted(e):
        _counter[0] += 1
        if _counter[0] > _counter[1]:
            raise Budget()
        return orig(e)
    eh._expr_simp = counted
    eh._verif_wrapped = True


def innermost(tb):
    fn = "?"
    while tb is not None:
        f = tb.tb_frame.f_code
        if "miasmx" in f.co_filename or "/ply/" in f.co_filename:
            fn = f.co_name
        tb = tb.tb_next
    return fn


def build_shared(s, memo):
    import json
    k = json.dumps(s)
    if k not in memo:
        kind = s[0]
        if kind in ("int", "id", "regid"):
            memo[k] = build(s)
        else:
            from miasmx.expression import expression as ex
            if kind == "mem":
                memo[k] = ex.ExprMem(build_shared(s[1], memo), s[2], build_shared(s[3], memo) if s[3] is not None else None)
            elif kind == "op":
                memo[k] = ex.ExprOp(s[1], *[build_shared(a, memo) for a in s[2]])
            elif kind == "cond":
                memo[k] = ex.ExprCond(build_shared(s[1], memo), build_shared(s[2], memo), build_shared(s[3], memo))
            elif kind == "slice":
                memo[k] = ex.ExprSlice(build_shared(s[1], memo), s[2], s[3])
            elif kind == "compose":
                memo[k] = ex.ExprCompose([(build_shared(x, memo), a, b) for x, a, b in s[1]])
            else:
                memo[k] = build(s)
    return memo[k]


def judge(s, nval=NVAL, salt=0):
    """None, or (kind, detail) for script s"""
    from miasmx.expression import expression_helper as eh
    install_counter()
    nodes = snodes(s)
    bound = 2000 * nodes
    r = None
    for attempt in range(3):
        # equal sub-scripts are ONE object (a DAG), as in lifted code where al, ah, eax[8:16] ... are shared module-level nodes:
        # a rule that edits a node in place then damages the other occurrences, and the value of the result shows it
        e = build_shared(s, {})
        _counter[0], _counter[1] = 0, bound
        try:
            r = eh.expr_simp(e)
            break
        except Budget:
            bound *= 2
            continue
        except RecursionError:
            return ("nonterm:RecursionError", "RecursionError while simplifying %s" % sshow(s))
        except Exception as ex:
            return ("raise:%s:%s" % (type(ex).__name__, innermost(sys.exc_info()[2])), "%s: %s on %s" % (type(ex).__name__, ex, sshow(s)))
    else:
        return ("nonterm:budget", "more than %d rewriting steps on %s (%d nodes)" % (bound // 2, sshow(s), nodes))
    e = build(s)
    try:
        w0, w1 = irsem.width(e), irsem.width(r)
    except Exception as ex:
        return ("illformed_result", "%s: %s -> %s" % (ex, sshow(s), r))
    if w0 != w1:
        return ("width", "%s has width %d, simplified %s has width %d" % (sshow(s), w0, r, w1))
    ids = sids(s)
    ids.update(irsem.ids_of(r))
    for v, ms in exprgen.fixed_valuations(ids, nval, salt):
        a = irsem.ev(e, irsem.Env(v, ms))
        try:
            b = irsem.ev(r, irsem.Env(v, ms))
        except Exception as ex:     # the original evaluates, the result does not: ill-formed result
            return ("illformed_result", "%s: %s: %s -> %s" % (type(ex).__name__, ex, sshow(s), r))
        if a != b:
            return ("value", "%s = 0x%X but simplified %s = 0x%X under %s" % (sshow(s), a, r, b, v))
    return None


# ---- reduction of a failing script to its root-cause shape -------------------
def children(s):
    k = s[0]
    if k == "mem": return [(("mem", 1), s[1])]
    if k == "op": return [(("op", i), a) for i, a in enumerate(s[2])]
    if k == "cond": return [(("cond", 1), s[1]), (("cond", 2), s[2]), (("cond", 3), s[3])]
    if k == "slice": return [(("slice", 1), s[1])]
    if k == "compose": return [(("compose", i), x[0]) for i, x in enumerate(s[1])]
    return []


def with_child(s, pos, new):
    k, i = pos
    s = list(s)
    if k == "op":
        a = list(s[2]); a[i] = new; s[2] = a
    elif k == "compose":
        a = [list(x) for x in s[1]]; a[i][0] = new; s[1] = a
    else:
        s[i] = new
    return s


def reduce_failure(s, kind):
    """descend to a minimal failing sub-expression, then generalise: replace each child subtree by a
    fresh identifier of the same width while the failure (same kind) persists"""
    fails = lambda x: (judge(x) or (None,))[0] == kind
    changed = True
    while changed:
        changed = False
        for pos, c in children(s):
            if c[0] not in ("int", "id") and fails(c):
                s = c
                changed = True
                break
    fresh = [0]

    def rec(node, rebuild):
        for pos, c in children(node):
            if c[0] == "id":
                continue
            cand = with_child(node, pos, ["id", "v%d" % fresh[0], swidth(c)])
            if fails(rebuild(cand)):
                fresh[0] += 1
                node = cand
            else:
                sub = rec(c, lambda x, node=node, pos=pos: rebuild(with_child(node, pos, x)))
                node = with_child(node, pos, sub)
        return node
    return rec(s, lambda x: x)


def shape(s):
    """shape text: constants abstracted to K0 (zero) / K (non-zero), identifiers to their width"""
    k = s[0]
    if k == "int": return "K0" if s[2] == 0 else "K"
    if k in ("id", "regid"): return "x"
    if k == "mem": return "@%d[%s]" % (s[2], shape(s[1]))
    if k == "op":
        if len(s[2]) == 1: return "(%s %s)" % (s[1], shape(s[2][0]))
        return "(" + (" %s " % s[1]).join(shape(a) for a in s[2]) + ")"
    if k == "cond": return "(%s?%s:%s)" % (shape(s[1]), shape(s[2]), shape(s[3]))
    if k == "slice": return "%s[s]" % shape(s[1])
    if k == "compose": return "{" + ",".join(shape(x[0]) for x in s[1]) + "}"
    return "?"


def oracle(s, salt=0):
    r = judge(s, salt=salt)
    if r is None:
        return None
    kind, detail = r
    m = reduce_failure(s, kind)
    r2 = judge(m)
    if r2 is None or r2[0] != kind:      # reduction lost the failure: keep the original
        m, r2 = s, r
    return ((kind, root_cause(kind, m)), r2[1], m)


ROT = ("<<<", ">>>")


def root_cause(kind, m):
    """the signature's second component: the generalised shape, except for failures located in one
    rewrite rule whose instances have no single shape"""
    if kind.startswith("raise:ValueError"):
        # attribution by intervention: the failure disappears when every rotate count is given the width of its operand
        # <=> it is the open rotate-merge finding (the rule adds counts of different widths), whatever wraps the chain
        m2 = exprgen.unify_rotate_counts(m)
        if m2 != m:
            r2 = judge(m2)
            if r2 is None or not r2[0].startswith("raise:"):
                return "rotate-merge rule applied to counts of different widths"
    return shape(m)


def oracle_case(case):
    r = oracle(case)
    if r is None:
        return None
    return (r[0], r[1])


# ---- strategies ----------------------------------------------------------------
def sub_general(w):
    return exprgen.expr(w, 1, mem=True)


def kint_general(w):
    return exprgen.const(w)


def sub8(w):
    # two 8-bit variables only; other widths are derived from them
    a, b = ["id", "a8", 8], ["id", "b8", 8]
    if w == 8:
        return st.sampled_from([a, b, ["op", "+", [a, b]], ["op", "-", [a]], ["op", "&", [a, b]], ["op", "^", [b, ["int", 8, 0x80]]]])
    if w == 1:
        return st.sampled_from([["slice", a, 0, 1], ["slice", b, 7, 8]])
    if w == 16:
        return st.sampled_from([["compose", [[a, 0, 8], [b, 8, 16]]], ["compose", [[b, 0, 8], [["int", 8, 0], 8, 16]]]])
    if w == 32:
        return st.sampled_from([["compose", [[a, 0, 8], [b, 8, 16], [["int", 16, 0], 16, 32]]], ["compose", [[["int", 16, 0xFFFF], 0, 16], [a, 16, 24], [b, 24, 32]]]])
    return st.just(["int", w, 1])


def kint8(w):
    return exprgen.const(w)


def has_mem(s):
    if s[0] == "mem":
        return True
    return any(has_mem(c) for _, c in children(s))


def w_random(run, st_, k, n):
    def orc(s):
        r = oracle(s, salt=k)
        st_.klass("random_w%d" % swidth(s))
        if r is None:
            from miasmx.expression import expression_helper as eh
            if str(eh.expr_simp(build(s))) != str(build(s)):
                st_.nt(("r", sshow(s)))
                st_.sample(sshow(s))
            return None
        return (r[0], r[1] + "   [minimal: %s]" % sshow(r[2]))
    seen = set()
    runner.hyp_drive(run, st_, exprgen.any_expr(3), orc, n, run.seed * 1000 + k, shrink=False, seen=seen)


def w_rules(run, st_, k, n):
    strat = rulegen.rules_strategy([1, 8, 16, 32, 64], sub_general, kint_general)

    def orc(x):
        rule, s = x
        st_.klass("rule_" + rule)
        r = oracle(s, salt=k)
        if r is None:
            st_.nt(("t", rule, sshow(s)))
            st_.sample("%s: %s" % (rule, sshow(s)))
            return None
        return (r[0], r[1] + "   [minimal: %s]" % sshow(r[2]))
    runner.hyp_drive(run, st_, strat, orc, n, run.seed * 1000 + 100 + k, to_case=lambda x: x[1], shrink=False)


def sweep(s):
    """all 2^16 valuations of (a8, b8): None or (a, b, orig, simp)"""
    from miasmx.expression import expression_helper as eh
    e = build(s)
    r = eh.expr_simp(build(s))
    f = irsem.compile_fn(e, ["a8", "b8"])
    try:
        g = irsem.compile_fn(r, ["a8", "b8"])
        g(0, 0)
    except irsem.Unsupported:
        raise
    except Exception as ex:
        return (0, 0, f(0, 0), -1, "%s (%s: %s)" % (r, type(ex).__name__, ex))
    for a in range(256):
        for b in range(256):
            if f(a, b) != g(a, b):
                return (a, b, f(a, b), g(a, b), str(r))
    return None


def w_sweep(run, st_, k, n):
    strat = rulegen.rules_strategy([8, 8, 8, 16], sub8, kint8)
    seen = {}

    def orc(x):
        rule, s = x
        if has_mem(s) or set(sids(s)) - set(["a8", "b8"]):
            return None
        key = sshow(s)
        if key in seen:
            return seen[key]
        seen[key] = None
        r = oracle(s)           # 16 valuations first: cheap, gives the signature
        if r is not None:
            seen[key] = (r[0], r[1])
            return seen[key]
        try:
            d = sweep(s)
        except irsem.Unsupported:
            return None
        st_.klass("sweep_rule_" + rule)
        st_.klass("exhaustive_valuation_sweeps")
        st_.ev(65536)
        st_.nt(("s", rule, key))
        if d is not None:
            seen[key] = (("value_sweep", shape(s)), "%s: a8=%d b8=%d gives 0x%X, simplified %s gives 0x%X" % (key, d[0], d[1], d[2], d[4], d[3]))
        return seen[key]
    runner.hyp_drive(run, st_, strat, orc, n, run.seed * 1000 + 200 + k, to_case=lambda x: x[1], shrink=False)


def main(run):
    run.rule = ("random layer: well-typed trees over Int/Id/Mem/Op/Cond/Slice/Compose at widths 1,8,16,32,64 (depth<=3), 16 boundary-biased valuations each; "
                "rule layer: one template per rewrite rule (%d templates) with generated sub-terms; sweep layer: 8-bit instances of the templates over variables a8,b8 "
                "evaluated on all 2^16 valuations. non-trivial = the simplifier changed the expression (random layer) / a template instance or sweep that ran to completion; "
                "distinct = distinct expression text" % len(rulegen.RULES))
    run.assumptions = ["vlib/irsem.py is the standard bit-vector meaning (flat memory, segment not part of the address; uninterpreted operators get a congruence-respecting pseudo-random function)",
                       "rotates are generated at widths 8/16/32 only (miasmX masks rotate counts with 0x1F)",
                       "termination is observed as bounded work: 2000 x node-count calls of the rewriting step, doubled twice"]
    nr = run.pick(700, 12000)
    nt = run.pick(700, 12000)
    ns = run.pick(40, 400)
    runner.pmap(run, w_random, [nr] * 16)
    runner.pmap(run, w_rules, [nt] * 16)
    runner.pmap(run, w_sweep, [ns] * 16)


def replay(run, case):
    return oracle_case(case)
