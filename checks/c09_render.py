"""C09 - Intel and AT&T renderings denote the same instruction and are valid GNU as input.

Domain: decodable strings of the C01 byte space without superfluous prefix (decided by objdump's text).
(1) parser round trip: b is among asm(intel rendering) and among asm_att(AT&T rendering); the 'objdump' immediate-format
    variants of both renderings parse to the same candidate sets as the plain ones.
(2) GNU as: for the compiler-emitted class (no relative-branch operand, no absolute numeric memory operand, no far pointer -
    decided on the reference normal form) GNU as accepts each rendering in the matching syntax mode and what it assembles
    decodes (objdump) to the normal form of the original instruction (an encoding of the same instruction, not necessarily
    the same bytes).
"""
import sys
from vlib import runner, refs, nf, x86space
from checks.c01_decode import row_key, lock_ok, split_prefixes, pnorm, dropped_prefix
from checks.c03_roundtrip import nf_features

FMT = {"intel": "intel_syntax noprefix", "att": "att_syntax binutils", "intel-objdump": "intel_syntax objdump", "att-objdump": "att_syntax objdump"}


def masm(att, line):
    from miasmx.arch.ia32_arch import x86mnemo
    try:
        r = x86mnemo.asm_att(line) if att else x86mnemo.asm(line)
    except Exception as ex:
        tb = sys.exc_info()[2]
        fn = "?"
        while tb is not None:
            if "miasmx" in tb.tb_frame.f_code.co_filename or "/ply/" in tb.tb_frame.f_code.co_filename:
                fn = tb.tb_frame.f_code.co_name
            tb = tb.tb_next
        return ("exc", type(ex).__name__ + "@" + fn)
    if not isinstance(r, list):
        return ("exc", "not-a-list")
    return ("ok", frozenset(bytes(x) for x in r))


def compiler_class(n):
    if n.mn in nf.BRANCH and n.ops and n.ops[0][0] == "rel":
        return False
    for o in n.ops:
        if o[0] == "far":
            return False
        if o[0] == "mem" and not o[3]:
            return False
    return True


def sigkey(part, kind, b, l, n1):
    if "@" in kind or kind.startswith("exc"):
        return (part, kind)
    ft = nf_features(n1)
    if kind.endswith("-segment") and any(o[0] == "mem" and o[2] is None and o[3] == frozenset([("ebp", 1)]) for o in n1.ops):
        # [ebp*1+disp32]: ebp as an index without base (default segment ds).  miasmX's operand dictionary is {ebp: 1, disp}, the same as
        # for [ebp+disp32] (base ebp, default ss), and is printed like the latter: one root cause in the representation, for every row
        return (part, "other-instruction:default-segment", "ebp-index-without-base")
    if "16-bit-addressing" in ft:
        return (part, kind, ft)          # neither assembler front end has 16-bit addressing at all: one root cause, nothing in it can regress
    if ft:
        # the feature alone is too coarse to list (it would cover any later defect that involves a segment override or an absolute address)
        rk = row_key(b, l)
        return (part, kind, ft, rk[0], rk[1], n1.mn)
    rk = row_key(b, l)
    return (part, kind, rk[0], rk[1], n1.mn)


def worker(run, st_, k, chunk):
    from miasmx.arch.ia32_arch import x86mnemo
    acc = []
    for b in chunk:
        try:
            i = x86mnemo.dis(b)
            if i is None or not lock_ok(b):
                continue
            texts = {}
            for name, fmt in FMT.items():
                try:
                    texts[name] = " ".join(i.__str__(asm_format=fmt).split())
                except Exception:
                    texts[name] = None
        except Exception:
            continue
        acc.append((b, i.l, texts))
    if not acc:
        return
    r1 = refs.objdump([b for b, _, _ in acc], scratch=run.scratch)
    r1a = refs.objdump([b for b, _, _ in acc], syntax="att", scratch=run.scratch)
    # canonical = GNU as reproduces the bytes from objdump's own text (an encoding with ignored bits cannot be demanded back)
    c1 = refs.gas([(r[1] if r else "") for r in r1], syntax="intel", scratch=run.scratch)
    c2 = refs.gas([(r[1] if r else "") for r in r1a], syntax="att", scratch=run.scratch)
    todo = []
    for (b, l, texts), ref, g1, g2 in zip(acc, r1, c1, c2):
        canonical = (g1 == b[:l] or g2 == b[:l])
        st_.ev()
        if ref is None or ref[0] != l:
            st_.exclude("reference_rejects_or_length_differs(C01)")
            continue
        n1 = nf.parse(ref[1], 0, ref[0])
        if n1 is None or nf.superfluous(n1) or nf.repeated_prefix(b[:l]):
            st_.exclude("superfluous_prefix")
            continue
        if texts["intel"] is None or texts["att"] is None:
            st_.exclude("render_raises(C10)")
            continue
        bl = b[:l]
        fails = []
        ri = masm(False, texts["intel"])
        ra = masm(True, texts["att"])
        # membership is judged modulo the order of the prefix bytes, which carries no meaning
        if ri[0] != "exc" and bl not in ri[1] and pnorm(bl) in [pnorm(x) for x in ri[1]]:
            ri = (ri[0], list(ri[1]) + [bl])
        if ra[0] != "exc" and bl not in ra[1] and pnorm(bl) in [pnorm(x) for x in ra[1]]:
            ra = (ra[0], list(ra[1]) + [bl])
        if ri[0] == "exc":
            fails.append((sigkey("intel-parser", "raises:" + ri[1], b, l, n1), "%s renders as %r; asm() raised %s" % (bl.hex(), texts["intel"], ri[1])))
        elif bl not in ri[1] and not canonical:
            st_.exclude("non_canonical_encoding_not_demanded_back")
        elif bl not in ri[1]:
            dp = dropped_prefix(bl, ri[1])
            fails.append((("intel-parser", "original-missing:prefix-%s-dropped" % dp) if dp else sigkey("intel-parser", "original-missing", b, l, n1), "%s renders as %r; asm() gives %s" % (bl.hex(), texts["intel"], sorted(x.hex() for x in ri[1])[:5])))
        if ra[0] == "exc":
            fails.append((sigkey("att-parser", "raises:" + ra[1], b, l, n1), "%s renders as %r; asm_att() raised %s" % (bl.hex(), texts["att"], ra[1])))
        elif bl not in ra[1] and not canonical:
            st_.exclude("non_canonical_encoding_not_demanded_back")
        elif bl not in ra[1]:
            dp = dropped_prefix(bl, ra[1])
            fails.append((("att-parser", "original-missing:prefix-%s-dropped" % dp) if dp else sigkey("att-parser", "original-missing", b, l, n1), "%s renders as %r; asm_att() gives %s" % (bl.hex(), texts["att"], sorted(x.hex() for x in ra[1])[:5])))
        for var, att, plain in (("intel-objdump", False, ri), ("att-objdump", True, ra)):
            if texts[var] is None:
                continue
            rv = masm(att, texts[var])
            if rv != plain:
                fails.append((sigkey(var, "differs-from-plain" if rv[0] == "ok" else "raises:" + rv[1], b, l, n1),
                              "%s: %r and its objdump-format variant %r parse differently (%s vs %s)" % (bl.hex(), texts["att" if att else "intel"], texts[var],
                                                                                                        show(plain), show(rv))))
        if compiler_class(n1):
            todo.append((b, l, texts, n1, ref))
        else:
            st_.klass("not_compiler_class(relative branch / absolute memory / far pointer)")
        record(st_, b, l, texts, fails)
    if not todo:
        return
    gi = refs.gas([t[2]["intel"] for t in todo], syntax="intel", scratch=run.scratch)
    ga = refs.gas([t[2]["att"] for t in todo], syntax="att", scratch=run.scratch)
    again = []
    for (b, l, texts, n1, ref), x, y in zip(todo, gi, ga):
        for mode, out in (("gas-intel", x), ("gas-att", y)):
            if out is None:
                record(st_, b, l, texts, [(sigkey(mode, "rejected", b, l, n1), "%s (%s): GNU as rejects the %s rendering %r" % (
                    b[:l].hex(), ref[1], mode[4:], texts["intel" if mode == "gas-intel" else "att"]))])
            elif out == b[:l]:
                st_.klass(mode + "_same_bytes")
            else:
                again.append((b, l, texts, n1, ref, mode, out))
    if again:
        r2 = refs.objdump([a[6] for a in again], scratch=run.scratch)
        for (b, l, texts, n1, ref, mode, out), rr in zip(again, r2):
            n2 = nf.parse(rr[1], 0, rr[0]) if rr else None
            d = ("undecodable", "") if (n2 is None or rr[0] != len(out)) else nf.diff(n2, n1, 0x66 in split_prefixes(b)[0])
            if d is None:
                st_.klass(mode + "_equivalent_encoding")
            else:
                record(st_, b, l, texts, [(sigkey(mode, "other-instruction:" + d[0], b, l, n1), "%s (%s): the %s rendering %r assembles (GNU as) to %s = %r" % (
                    b[:l].hex(), ref[1], mode[4:], texts["intel" if mode == "gas-intel" else "att"], out.hex(), rr[1] if rr else None))])


def show(r):
    return sorted(x.hex() for x in r[1])[:4] if r[0] == "ok" else r[1]


def record(st_, b, l, texts, fails):
    if not fails:
        st_.klass("ok_part")
        if texts["att"] and texts["intel"] and texts["att"].replace("%", "").replace("$", "") != texts["intel"]:
            st_.nt(b[:l])
            st_.sample({"bytes": b[:l].hex(), "intel": texts["intel"], "att": texts["att"]})
        return
    for sig, det in fails:
        sig = runner.norm_sig(sig)
        if not any(f[0] == sig for f in st_.failures):
            st_.fail(sig, det, {"bytes": b.hex(), "sig": list(sig)})


def main(run):
    refs.need("objdump"); refs.need("as")
    run.rule = ("enumeration of the structured byte space (+ ModRM grids, x87, boundary values); each decodable string without superfluous prefix is rendered in 4 formats; "
                "parser round trips and GNU as acceptance/equivalence are judged. non-trivial = instruction whose AT&T text differs from the Intel text by more than sigils and "
                "that passed a part of the check; distinct by bytes")
    run.assumptions = ["objdump defines the instruction a byte string encodes and whether a prefix is superfluous; GNU as 2.40 defines valid input",
                       "the compiler-emitted class is decided on the reference normal form (no relative branch operand, no absolute numeric memory operand, no far pointer)"]
    cs = set(x86space.cases(run.tier, run.seed, thin=run.pick(2, 1))) | set(x86space.modrm_grid()) | set(x86space.segment_grid(*run.pick(((b"\x8b", b"\xff", b"\x0f\xb6"),), ()))) | set(x86space.x87_cases()) | set(x86space.boundary_value_cases())
    runner.pmap(run, worker, runner.chunks(sorted(cs), 64))


def replay(run, case):
    st_ = runner.Stats()
    with runner.quiet():
        worker(run, st_, 0, [bytes.fromhex(case["bytes"])])
    want = run.want_sig or (runner.norm_sig(case["sig"]) if case.get("sig") else None)
    for sig, det, _ in st_.failures:
        if want is None or sig == want:
            return (sig, det)
    return None
