"""API probes for C12: JSON-describable calls with a canonical (id()-free, order-preserving) serialisation of their results.

    run_probe(probe) -> (result serialisation, input-mutation report or None)
    Pristine(): a zygote process that has imported miasmX but never called it; pristine.result(probe) forks a child from it
    that executes exactly this one probe - the result of the call "with an empty history".
Expressions of 'eval' probes are built on the module-level register singletons of ia32_sem (shared objects), because that is how
client code builds them.
"""
import os
import sys
import json
import struct
import hashlib


_OBJ = {}


def shared_build(s):
    """like exprgen.build, but identifiers that name x86 registers / flags are the shared singletons of ia32_sem, and within one
    process the same script yields the same object (client code evaluates / simplifies one expression object several times)"""
    key = json.dumps(s)
    if key not in _OBJ:
        _OBJ[key] = _shared_build(s)
    return _OBJ[key]


def _shared_build(s):
    from miasmx.arch import ia32_sem as sem
    from miasmx.expression import expression as ex
    from miasmx.tools import modint
    k = s[0]
    if k == "int":
        return ex.ExprInt(getattr(modint, "uint%d" % s[1])(s[2]))
    if k in ("id", "regid"):
        obj = getattr(sem, s[1], None)
        if isinstance(obj, ex.ExprId) and obj.size == s[2]:
            return obj
        return ex.ExprId(s[1], s[2])
    if k == "mem":
        return ex.ExprMem(shared_build(s[1]), s[2], shared_build(s[3]) if s[3] is not None else None)
    if k == "op":
        return ex.ExprOp(s[1], *[shared_build(a) for a in s[2]])
    if k == "cond":
        return ex.ExprCond(shared_build(s[1]), shared_build(s[2]), shared_build(s[3]))
    if k == "slice":
        return ex.ExprSlice(shared_build(s[1]), s[2], s[3])
    if k == "compose":
        return ex.ExprCompose([(shared_build(x), a, b) for x, a, b in s[1]])
    raise ValueError(s)


def ser_expr(e):
    from vlib.exprgen import to_script
    try:
        return to_script(e)
    except Exception:
        return ["str", str(e)]


def ser_arg(a):
    """operand dictionaries of an instruction object"""
    if isinstance(a, dict):
        return sorted((str(k), ser_arg(v)) for k, v in a.items())
    if isinstance(a, (list, tuple)):
        return [ser_arg(x) for x in a]
    try:
        return int(a)
    except Exception:
        return str(a)


def snap_instr(i):
    return [bytes(i.b).hex(), i.l, i.offset, [int(p) for p in i.prefix], ser_arg(i.arg), str(i.opmode), str(i.admode), i.m.name]


def machine_from(spec):
    """spec: {"ids": {name: script}, "mems": [[addr script, size, value script]]} built on shared singletons"""
    from miasmx.expression.expression_eval_abstract import eval_abs
    from miasmx.expression import expression as ex
    vars_ = {}
    for n, (size, v) in sorted(spec.get("ids", {}).items()):
        vars_[shared_build(["id", n, size])] = shared_build(v)
    for a, size, v in spec.get("mems", []):
        vars_[ex.ExprMem(shared_build(a), size)] = shared_build(v)
    return eval_abs(vars_)


def snap_machine(m):
    return [sorted((str(k), ser_expr(v)) for k, v in m.pool.pool_id.items()),
            sorted((str(k), [ser_expr(v[0]), ser_expr(v[1])]) for k, v in m.pool.pool_mem.items())]


def run_probe(p):
    """-> (result, mutation) ; result is JSON-able; exceptions are part of the result ("EXC:Type")"""
    from miasmx.arch.ia32_arch import x86mnemo
    from miasmx.tools import emul_helper
    from miasmx.tools.modint import uint32
    from miasmx.expression.expression import ExprInt
    from miasmx.expression.expression_helper import expr_simp
    k = p["k"]
    mut = None
    try:
        if k == "dis":
            b = bytes.fromhex(p["b"])
            b0 = bytes(b)
            i = x86mnemo.dis(b)
            if b != b0:
                mut = "input bytes changed"
            if i is None:
                return None, mut
            return [i.l, " ".join(str(i).split()), " ".join(i.__str__(asm_format="att_syntax binutils").split())], mut
        if k == "asm":
            f = x86mnemo.asm_att if p.get("att") else x86mnemo.asm
            r = f(p["l"])
            return sorted(x.hex() if isinstance(x, (bytes, bytearray)) else repr(x) for x in r), mut
        if k == "lift":
            i = x86mnemo.dis(bytes.fromhex(p["b"]))
            if i is None:
                return None, mut
            before = snap_instr(i)
            ex = emul_helper.get_instr_expr(i, ExprInt(uint32(0x1000 + i.l)), [])
            r = [ser_expr(e) for e in ex]
            if snap_instr(i) != before:
                mut = "instruction object changed by lifting"
            return r, mut
        if k == "relift":
            # one instruction object lifted twice with different explicit arguments: the second result must be what a fresh decode gives
            i = x86mnemo.dis(bytes.fromhex(p["b"]))
            if i is None:
                return None, mut
            eip = lambda o: ExprInt(uint32(0x1000 + o.l))
            emul_helper.get_instr_expr(i, eip(i), [], set(p["first"]))
            r = [ser_expr(e) for e in emul_helper.get_instr_expr(i, eip(i), [], set(p["second"]))]
            j = x86mnemo.dis(bytes.fromhex(p["b"]))
            if r != [ser_expr(e) for e in emul_helper.get_instr_expr(j, eip(j), [], set(p["second"]))]:
                mut = "lifting an instruction object a second time (other segm_to_do) differs from lifting a fresh decode of the same bytes"
            return r, mut
        if k == "liftsimp":
            i = x86mnemo.dis(bytes.fromhex(p["b"]))
            if i is None:
                return None, mut
            ex = emul_helper.get_instr_expr(i, ExprInt(uint32(0x1000 + i.l)), [])
            before = [ser_expr(e) for e in ex]
            r = [[ser_expr(e.dst), ser_expr(expr_simp(e.src))] for e in ex]
            if [ser_expr(e) for e in ex] != before:
                mut = "lifted expressions changed by expr_simp"
            return r, mut
        if k == "hold":
            # an instruction object that the caller keeps while it makes other calls must not change under its hands
            i = x86mnemo.dis(bytes.fromhex(p["b"]))
            if i is None:
                return None, mut
            fmts = ("intel_syntax noprefix", "att_syntax binutils")
            view = lambda: [snap_instr(i)] + [" ".join(i.__str__(asm_format=f).split()) for f in fmts]
            before = view()
            for q in p["then"]:
                run_probe(q)
            if view() != before:
                mut = "an instruction object returned earlier changed during later calls"
            return before, mut
        if k == "render":
            i = x86mnemo.dis(bytes.fromhex(p["b"]))
            if i is None:
                return None, mut
            before = snap_instr(i)
            r = [" ".join(i.__str__(asm_format=f).split()) for f in ("intel_syntax noprefix", "att_syntax binutils", "att_syntax objdump")]
            if snap_instr(i) != before:
                mut = "instruction object changed by rendering"
            return r, mut
        if k == "simp":
            e = shared_build(p["s"])
            before = ser_expr(e)
            r = ser_expr(expr_simp(e))
            if ser_expr(e) != before:
                mut = "expression changed by expr_simp"
            return r, mut
        if k == "eval":
            m = machine_from(p["m"])
            e = shared_build(p["s"])
            bm, be = snap_machine(m), ser_expr(e)
            r = ser_expr(m.eval_expr(e, {}))
            if ser_expr(e) != be:
                mut = "expression changed by eval_expr"
            elif snap_machine(m) != bm:
                mut = "machine state changed by eval_expr"
            return r, mut
        if k == "emul":
            m = emul_helper.x86_machine()
            lines = [x86mnemo.dis(bytes.fromhex(b)) for b in p["b"]]
            before = [snap_instr(l) for l in lines]
            try:
                emul_helper.emul_lines(m, lines)
            finally:
                if [snap_instr(l) for l in lines] != before:
                    mut = "instruction object changed by emulation"
            return m.dump_id() + ["--"] + m.dump_mem(), mut
        if k == "emul-shared":
            # one state dictionary given to two machines; one of them emulates.  The dictionary, the other machine and an expression
            # read out of the emulating machine beforehand are inputs / earlier results: they must stay what they were
            from miasmx.expression.expression_eval_abstract import eval_abs
            from miasmx.expression import expression as ex_
            from miasmx.arch import ia32_sem as ia32_reg
            vars_ = dict(emul_helper.x86_machine().pool.pool_id)
            for n, v in sorted(p["regs"].items()):
                r = getattr(ia32_reg, n)
                vars_[r] = ex_.ExprInt(getattr(__import__("miasmx.tools.modint", fromlist=["x"]), "uint%d" % r.size)(v))
            snap = lambda d: sorted((str(a), ser_expr(b)) for a, b in d.items())
            d0 = snap(vars_)
            m1, m2 = eval_abs(vars_), eval_abs(vars_)
            held = dict((n, m1.pool[getattr(ia32_reg, n)]) for n in p["regs"])
            h0 = sorted((n, ser_expr(v)) for n, v in held.items())
            s2 = snap_machine(m2)
            lines = [x86mnemo.dis(bytes.fromhex(b)) for b in p["b"]]
            before = [snap_instr(l) for l in lines]
            try:
                emul_helper.emul_lines(m1, lines)
            finally:
                if snap(vars_) != d0:
                    mut = "the state dictionary a machine was built from changed during emulation"
                elif snap_machine(m2) != s2:
                    mut = "a second machine built from the same state dictionary changed while the first emulated"
                elif sorted((n, ser_expr(v)) for n, v in held.items()) != h0:
                    mut = "an expression read out of the machine before the emulation changed during it"
                elif [snap_instr(l) for l in lines] != before:
                    mut = "instruction object changed by emulation"
            return m1.dump_id() + ["--"] + m1.dump_mem(), mut
    except Exception as e:
        return "EXC:%s" % type(e).__name__, mut
    raise ValueError("bad probe %r" % (p,))


def table_fingerprint():
    """digest of the shared instruction / register tables"""
    from miasmx.arch import ia32_arch as a
    from miasmx.arch import ia32_sem as sem
    h = hashlib.blake2b(digest_size=16)

    def feed(x, depth=0):
        if depth > 12:
            h.update(b"...")
            return
        if isinstance(x, dict):
            h.update(b"{")
            for k in sorted(x, key=lambda z: str(z)):
                h.update(str(k).encode())
                feed(x[k], depth + 1)
            h.update(b"}")
        elif isinstance(x, (list, tuple)):
            h.update(b"[")
            for y in x:
                feed(y, depth + 1)
            h.update(b"]")
        elif x.__class__.__name__ == "mnemonic":
            h.update(("M:%s:%s:%s:%s" % (x.name, x.opc, x.afs, x.rm)).encode())
            feed(x.modifs, depth + 1)
        elif hasattr(x, "__dict__") and x.__class__.__module__.startswith("miasmx") and not x.__class__.__name__.startswith("Expr"):
            feed(vars(x), depth + 1)
        else:
            h.update(str(x).encode())
    db = a.x86mndb
    for name in ("db_mnemo", "db_afs", "db_afs_16", "db_afs_mm", "db_afs_xmm", "sib_rez_u08_ebp", "sib_rez_u08", "sib_rez_u32", "sib_rez_u32_ebp", "mnemo_lookup"):
        if hasattr(db, name):
            h.update(name.encode())
            feed(getattr(db, name))
    for name in ("att_mnemo_table", "mnemo_mmx_hash"):
        if hasattr(a, name):
            h.update(name.encode())
            feed(getattr(a, name))
    feed(sorted(sem.mnemo_func))
    feed(sorted((str(k), str(v)) for k, v in sem.init_regs.items()))
    return h.hexdigest()


def reset_hidden(which):
    """interventions used to attribute a history dependence to one hidden-state mechanism"""
    from miasmx.arch import ia32_sem as sem
    from miasmx.expression import expression as ex
    from miasmx.expression import expression_eval_abstract as ea
    if which == "is_eval-on-shared-register":
        for v in vars(sem).values():
            if isinstance(v, ex.ExprId) and "is_eval" in vars(v):
                del v.is_eval
    elif which == "default-eval_cache":
        for f in vars(ea.eval_abs).values():
            for d in (getattr(f, "__defaults__", None) or ()):
                if isinstance(d, dict):
                    d.clear()
    elif which == "memoised-expression-objects":
        _OBJ.clear()
    else:
        raise ValueError(which)


RESETS = ["is_eval-on-shared-register", "default-eval_cache", "memoised-expression-objects"]


def run_history_here(h, fingerprint=True, reset=None):
    fp0 = table_fingerprint() if fingerprint else None
    steps = []
    for i, p in enumerate(h):
        if reset and i == len(h) - 1:
            reset_hidden(reset)
        res, mut = run_probe(p)
        steps.append([res, mut])
    return {"steps": steps, "tables_changed": bool(fingerprint and table_fingerprint() != fp0)}


# ---- pristine results -----------------------------------------------------------------------------
class Pristine(object):
    def __init__(self):
        self.pid = None
        self.cache = {}

    def start(self):
        r1, w1 = os.pipe()      # requests  -> zygote
        r2, w2 = os.pipe()      # results   <- children
        pid = os.fork()
        if pid == 0:
            os.close(w1); os.close(r2)
            try:
                self._zygote(r1, w2)
            finally:
                os._exit(0)
        os.close(r1); os.close(w2)
        self.pid, self.req, self.res = pid, os.fdopen(w1, "wb"), os.fdopen(r2, "rb")

    def _zygote(self, rfd, wfd):
        # this process has imported miasmX (through the parent) but has not executed any API call
        import select
        inp = os.fdopen(rfd, "rb", buffering=0)
        parent = os.getppid()
        while True:
            # the request pipe is inherited by sibling processes, so EOF never arrives: leave when the parent is gone
            while not select.select([rfd], [], [], 2.0)[0]:
                if os.getppid() != parent:
                    return
            hdr = inp.read(4)
            if len(hdr) < 4:
                return
            n = struct.unpack("<I", hdr)[0]
            data = b""
            while len(data) < n:
                chunk = inp.read(n - len(data))
                if not chunk:
                    return
                data += chunk
            req = json.loads(data.decode())
            pid = os.fork()
            if pid == 0:
                try:
                    devnull = open(os.devnull, "w")
                    sys.stdout = devnull
                    if isinstance(req, dict) and req.get("mode") == "history":
                        res = run_history_here(req["h"], req.get("fingerprint", True), req.get("reset"))
                    else:
                        res = run_probe(req)[0]
                    out = json.dumps(res).encode()
                except BaseException as e:
                    out = json.dumps("ZYGOTE-EXC:%s" % type(e).__name__).encode()
                os.write(wfd, struct.pack("<I", len(out)) + out)
                os._exit(0)
            os.waitpid(pid, 0)

    def _ask(self, obj):
        if self.pid is None:
            self.start()
        b = json.dumps(obj, sort_keys=True).encode()
        self.req.write(struct.pack("<I", len(b)) + b)
        self.req.flush()
        n = struct.unpack("<I", self.res.read(4))[0]
        data = b""
        while len(data) < n:
            chunk = self.res.read(n - len(data))
            if not chunk:
                raise RuntimeError("zygote died")
            data += chunk
        return json.loads(data.decode())

    def history(self, h, fingerprint=True, reset=None):
        if reset:
            return self._ask({"mode": "history", "h": h, "fingerprint": fingerprint, "reset": reset})
        """the whole history executed in one fresh child: {"steps": [[result, mutation], ...], "tables_changed": bool}"""
        return self._ask({"mode": "history", "h": h, "fingerprint": fingerprint})

    def result(self, probe):
        key = json.dumps(probe, sort_keys=True)
        if key in self.cache:
            return self.cache[key]
        r = self._ask(probe)
        self.cache[key] = r
        return r

    def close(self):
        if self.pid:
            import signal
            try:
                os.kill(self.pid, signal.SIGKILL)
                os.waitpid(self.pid, 0)
                self.req.close()
            except Exception:
                pass
            self.pid = None
