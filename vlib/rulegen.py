"""Rule-directed layer of G3: one template per rewrite rule of the simplifier, so that every rule is
reached on every run.  Each template builds a script from generated sub-terms.

rule_instance(rule, w, sub, kint, cnt) -> strategy of scripts
   sub(w')  strategy of sub-term scripts of width w'
   kint(w') strategy of constants (scripts)
"""
from hypothesis import strategies as st
from vlib.exprgen import ASSOC

RULES = [
    "fold2", "foldn", "fold_shift", "negneg", "negint", "op0_right", "op0_left", "op0_mul_and", "shift0", "sub", "sub0", "zero_sub",
    "neg_sum", "xor_self", "xor_self3", "add_neg", "neg_add", "add_neg3", "or_self", "and_self", "and_self3",
    "rot_size", "rot_rot_same", "rot_rot_diff", "rot_const", "mask_shift", "eq_int", "or_eq0", "parity_int",
    "slice_full", "slice_int", "slice_slice", "slice_compose_in", "slice_compose_span", "slice_mem",
    "compose_adjacent", "compose_ints", "compose_mix", "compose_single", "cond_int", "cond_neg", "flatten", "fold_canon",
    "shift_shift", "mul_one", "slice_of_op", "near_xor", "near_add_neg", "near_or_and", "near_eq", "near_rot", "compose_adjacent_partial",
]


def halves(w):
    return {8: [4], 16: [8, 4], 32: [16, 8, 24], 64: [32, 16, 8]}.get(w, [])


def rule_instance(rule, w, sub, kint):
    @st.composite
    def g(draw):
        A = lambda ww=w: draw(sub(ww))
        K = lambda ww=w: draw(kint(ww))
        Kv = lambda v, ww=w: ["int", ww, v & ((1 << ww) - 1)]
        aop = lambda: draw(st.sampled_from(ASSOC))
        if rule == "fold2":
            return ["op", aop(), [K(), K()]]
        if rule == "foldn":
            return ["op", aop(), draw(st.permutations([A(), K(), K()] + ([K()] if draw(st.booleans()) else [])))]
        if rule == "fold_shift" and w > 1:
            cnt = draw(st.sampled_from([0, 1, 2, 3, 4, 7, w - 1, w, w + 1]))
            return ["op", draw(st.sampled_from(["<<", ">>"])), [K(), Kv(cnt)]]
        if rule == "negneg":
            return ["op", "-", [["op", "-", [A()]]]]
        if rule == "negint":
            return ["op", "-", [K()]]
        if rule == "op0_right":
            return ["op", draw(st.sampled_from(["+", "|", "^"])), [A(), Kv(0)]]
        if rule == "op0_left":
            return ["op", draw(st.sampled_from(["+", "|", "^"])), [Kv(0), A()]]
        if rule == "op0_mul_and":
            return ["op", draw(st.sampled_from(["*", "&"])), draw(st.permutations([A(), Kv(draw(st.sampled_from([0, 1, -1])))]))]
        if rule == "shift0" and w in (8, 16, 32):
            return ["op", draw(st.sampled_from(["<<", ">>", "<<<", ">>>", "a>>"])), [A(), Kv(0)]]
        if rule == "sub":
            return ["op", "-", [A(), A()]]
        if rule == "sub0":
            return ["op", "-", [A(), Kv(0)]]
        if rule == "zero_sub":
            return ["op", "-", [Kv(0), A()]]
        if rule == "neg_sum":
            return ["op", "-", [["op", "+", [A() for _ in range(draw(st.integers(2, 3)))]]]]
        if rule == "xor_self":
            a = A()
            return ["op", "^", [a, a]]
        if rule == "xor_self3":
            a = A()
            return ["op", "^", draw(st.permutations([a, A(), a]))]
        if rule == "add_neg":
            a = A()
            return ["op", "+", [a, ["op", "-", [a]]]]
        if rule == "neg_add":
            a = A()
            return ["op", "+", [["op", "-", [a]], a]]
        if rule == "add_neg3":
            a = A()
            return ["op", "+", draw(st.permutations([a, A(), ["op", "-", [a]]]))]
        if rule == "or_self":
            a = A()
            return ["op", "|", [a, a]]
        if rule == "and_self":
            a = A()
            return ["op", "&", [a, a]]
        if rule == "and_self3":
            a = A()
            return ["op", draw(st.sampled_from(["&", "|"])), draw(st.permutations([a, A(), a]))]
        if rule == "rot_size" and w in (8, 16, 32):
            return ["op", draw(st.sampled_from(["<<<", ">>>"])), [A(), Kv(w)]]
        if rule in ("rot_rot_same", "rot_rot_diff") and w in (8, 16, 32):
            o1 = draw(st.sampled_from(["<<<", ">>>"]))
            o2 = o1 if rule == "rot_rot_same" else ("<<<" if o1 == ">>>" else ">>>")
            c1 = draw(st.one_of(st.sampled_from([1, 2, 3, 5, w - 1]).map(Kv), sub(w)))
            c2 = draw(st.one_of(st.sampled_from([1, 2, 3, 5, w - 1]).map(Kv), sub(w)))
            return ["op", o2, [["op", o1, [A(), c1]], c2]]
        if rule == "rot_const" and w in (8, 16, 32):
            return ["op", draw(st.sampled_from(["<<<", ">>>"])), [draw(st.one_of(kint(w), sub(w))), Kv(draw(st.sampled_from([1, 3, w - 1, w // 2])))]]
        if rule == "mask_shift" and w > 1:
            s = draw(st.integers(1, w - 1))
            mask = draw(st.sampled_from([(1 << s) - 1, 1 << s, (1 << s) + 1, (1 << s) >> 1, ((1 << s) << 1) & ((1 << w) - 1), 1, (1 << w) - 1]))
            inner = ["op", "&", [A(), Kv(mask)]]
            return ["op", ">>", [inner, Kv(s)]]
        if rule == "eq_int":
            a = K()
            return ["op", "==", [a, draw(st.one_of(st.just(a), kint(w)))]]
        if rule == "or_eq0":
            return ["op", "==", [["op", "|", [A(), K()]], Kv(draw(st.sampled_from([0, 0, 1])))]]
        if rule == "parity_int":
            return ["op", "parity", [K()]]
        if rule == "slice_full":
            return ["slice", A(), 0, w]
        if rule == "slice_int" and w > 1:
            hs = halves(w) + [1]
            h = draw(st.sampled_from(hs))
            start = draw(st.sampled_from(sorted(set([0, w - h, min(8, w - h)]))))
            return ["slice", K(), start, start + h]
        if rule == "slice_slice" and w >= 16:
            h = draw(st.sampled_from(halves(w)))
            s1 = draw(st.sampled_from(sorted(set([0, w - h, min(4, w - h)]))))
            h2 = draw(st.sampled_from([1, max(1, h // 2), h]))
            s2 = draw(st.sampled_from(sorted(set([0, h - h2]))))
            return ["slice", ["slice", A(), s1, s1 + h], s2, s2 + h2]
        if rule in ("slice_compose_in", "slice_compose_span") and w >= 8:
            h = draw(st.sampled_from(halves(w)))
            lo, hi = draw(sub(w)), draw(sub(w))
            comp = ["compose", [[["slice", lo, 0, h], 0, h], [["slice", hi, h, w], h, w]]]
            if draw(st.booleans()) and h in (8, 16, 32) and (w - h) in (8, 16, 32):
                comp = ["compose", [[draw(sub(h)), 0, h], [draw(sub(w - h)), h, w]]]
            if rule == "slice_compose_in":
                if draw(st.booleans()):
                    k = draw(st.sampled_from(sorted(set([1, h, max(1, h // 2)]))))
                    s = draw(st.sampled_from(sorted(set([0, h - k]))))
                else:
                    k = draw(st.sampled_from(sorted(set([1, w - h, max(1, (w - h) // 2)]))))
                    s = draw(st.sampled_from(sorted(set([h, w - k]))))
                return ["slice", comp, s, s + k]
            s = draw(st.integers(max(0, h - 4), h - 1))
            return ["slice", comp, s, draw(st.integers(h + 1, min(w, h + 4)))]
        if rule == "slice_mem" and w >= 16:
            k = draw(st.sampled_from([x for x in (8, 16, 32) if x < w]))
            seg = draw(st.sampled_from([None, ["id", "ds", 16]]))
            start = draw(st.sampled_from([0, 0, 8]))
            if start + k > w:
                start = 0
            return ["slice", ["mem", draw(sub(32)), w, seg], start, start + k]
        if rule == "compose_adjacent" and w >= 8:
            h = draw(st.sampled_from(halves(w)))
            a = A()
            b = draw(st.one_of(st.just(a), st.just(a), sub(w)))
            s2 = draw(st.sampled_from([h, h, 0]))      # 0: adjacent in the slots but not in the source (must not be merged)
            return ["compose", [[["slice", a, 0, h], 0, h], [["slice", b, s2, s2 + (w - h)], h, w]]]
        if rule == "compose_adjacent_partial" and w >= 16:
            # two adjacent slices that together cover a whole narrower source, next to another slot
            h = w // 2
            q = draw(st.sampled_from([h // 2, 1, h - 1] if h > 2 else [1]))
            a = draw(sub(h)) if h in (1, 8, 16, 32) else None
            if a is None:
                return None
            other = draw(sub(h))
            lo = [[["slice", a, 0, q], 0, q], [["slice", a, q, h], q, h], [other, h, w]]
            hi = [[other, 0, h], [["slice", a, 0, q], h, h + q], [["slice", a, q, h], h + q, w]]
            return ["compose", draw(st.sampled_from([lo, hi]))]
        if rule == "compose_ints" and w >= 8:
            h = draw(st.sampled_from(halves(w)))
            def kk(ww):
                if ww in (8, 16, 32, 64):
                    return draw(kint(ww))
                return ["slice", draw(kint(w)), 0, ww]
            return ["compose", [[kk(h), 0, h], [kk(w - h), h, w]]]
        if rule == "compose_mix" and w >= 16:
            q = w // 4
            srcs = [A(), A()]
            parts = []
            for i in range(4):
                c = draw(st.integers(0, 2))
                if c == 0:
                    x = ["slice", srcs[draw(st.integers(0, 1))], i * q, (i + 1) * q]
                elif c == 1:
                    x = draw(kint(q)) if q in (8, 16, 32) else ["slice", draw(kint(w)), 0, q]
                else:
                    o = draw(st.sampled_from([0, w - q]))
                    x = ["slice", A(), o, o + q]
                parts.append([x, i * q, (i + 1) * q])
            return ["compose", parts]
        if rule == "compose_single":
            return ["compose", [[A(), 0, w]]]
        if rule == "cond_int":
            return ["cond", K(draw(st.sampled_from([1, 8, 32]))), A(), A()]
        if rule == "cond_neg":
            cw = draw(st.sampled_from([8, 32]))
            return ["cond", ["op", "-", [draw(sub(cw))]], A(), A()]
        if rule == "flatten":
            op = aop()
            return ["op", op, [["op", op, [A(), A()]], ["op", op, [A(), K()]], K()]]
        if rule == "fold_canon":
            op = aop()
            return ["op", op, [["op", op, [A(), K()]], K()]]
        if rule == "shift_shift" and w > 1:
            o1, o2 = draw(st.sampled_from(["<<", ">>", "a>>"])), draw(st.sampled_from(["<<", ">>", "a>>"]))
            c = lambda: Kv(draw(st.sampled_from([0, 1, 2, w // 2, w - 1, w])))
            return ["op", o2, [["op", o1, [A(), c()]], c()]]
        if rule == "mul_one":
            return ["op", "*", draw(st.permutations([A(), Kv(1)]))]
        if rule == "slice_of_op" and w >= 8:
            h = draw(st.sampled_from(halves(w)))
            o = draw(st.sampled_from([0, w - h]))
            return ["slice", ["op", aop(), [A(), A()]], o, o + h]
        if rule.startswith("near_"):
            # operands that are *almost* equal: the rules testing operand equality must not fire
            from vlib.exprgen import mutate, expr
            a = draw(expr(w, 2, mem=True))
            kind, b = draw(mutate(a))
            if draw(st.booleans()):
                a, b = b, a
            if rule == "near_xor":
                return ["op", "^", [a, b]]
            if rule == "near_add_neg":
                return ["op", "+", draw(st.permutations([a, ["op", "-", [b]]]))]
            if rule == "near_or_and":
                return ["op", draw(st.sampled_from(["|", "&"])), [a, b]]
            if rule == "near_eq":
                return ["op", "==", [a, b]]
            if rule == "near_rot" and w in (8, 16, 32):
                c = draw(st.sampled_from([1, 3, w - 1]))
                return ["op", "^", [["op", "<<<", [a, Kv(c)]], ["op", "<<<", [b, Kv(c)]]]]
        return None
    return g()


def rules_strategy(widths, sub, kint):
    """strategy of (rule name, script)"""
    @st.composite
    def g(draw):
        for _ in range(20):
            rule = draw(st.sampled_from(RULES))
            w = draw(st.sampled_from(widths))
            s = draw(rule_instance(rule, w, sub, kint))
            if s is None:
                continue
            return rule, s
        return "fold2", ["op", "+", [["int", 8, 1], ["int", 8, 2]]]
    return g()
