"""G5 - integer-core instruction instances, written as AT&T text and assembled by GNU as (never by miasmX).

Register roles (so that every memory operand falls inside the transferred data window):
   esi = WIN+0x200 (base), edi = small index 0..7 (string forms: WIN+0x280), esp = WIN+0x380 (stack)
   eax ecx edx ebx ebp: free data registers
    instances(tier) -> list of dict(text, family, size, form, kind[, count, cc, targets])
"""
from vlib import cpu

ALU2 = ["add", "or", "adc", "sbb", "and", "sub", "xor", "cmp", "test", "mov"]
UNARY = ["inc", "dec", "neg", "not", "mul", "imul", "div", "idiv"]
SHIFT = ["shl", "shr", "sar", "rol", "ror", "rcl", "rcr"]
CCS = ["o", "no", "b", "ae", "e", "ne", "be", "a", "s", "ns", "p", "np", "l", "ge", "le", "g"]
SUF = {8: "b", 16: "w", 32: "l"}
REGS = {8: ["al", "cl", "dl", "bl", "ah", "ch", "dh", "bh"], 16: ["ax", "cx", "dx", "bx", "bp"], 32: ["eax", "ecx", "edx", "ebx", "ebp"]}
MEMS = ["0x10(%esi)", "(%esi,%edi,4)", "0x%x" % (cpu.WIN + 0x240), "-4(%esi,%edi,2)", "(%esi)"]
IMMS = {8: [0, 1, 0x7f, 0x80, 0xff, 0x10, 0x55], 16: [0, 1, 0x7f, 0x80, 0xff, 0x7fff, 0x8000, 0xffff, 0x1234, 0xff80], 32: [0, 1, 0x7f, 0x80, 0xff, 0x7fffffff, 0x80000000, 0xffffffff, 0x12345678, 0xffffff80]}
COUNTS = [0, 1, 2, 7, 8, 15, 16, 17, 31, 32, 33, 0xff]


def pairs(w):
    r = REGS[w]
    out = [(r[1], r[0]), (r[0], r[0]), (r[2], r[3]), (r[3], r[1])]
    if w == 8:
        out += [("ah", "al"), ("bh", "ch"), ("al", "dh")]
    return out


def instances(tier="quick"):
    out = []

    def add(text, family, size, form, **kw):
        d = {"text": text, "family": family, "size": size, "form": form}
        d.update(kw)
        out.append(d)
    full = tier != "quick"
    for op in ALU2 + ["xchg", "xadd", "cmpxchg"]:
        for w in (8, 16, 32):
            s = SUF[w]
            for a, b in pairs(w)[:(7 if full else 3)]:
                add("%s%s %%%s, %%%s" % (op, s, a, b), op, w, "rr")
            for m in MEMS[:(5 if full else 3)]:
                add("%s%s %%%s, %s" % (op, s, REGS[w][1], m), op, w, "rm")
                if op in ALU2 and op != "test":
                    add("%s%s %s, %%%s" % (op, s, m, REGS[w][2]), op, w, "mr")
            if op in ALU2:
                for im in IMMS[w][:(10 if full else 5)]:
                    add("%s%s $0x%x, %%%s" % (op, s, im, REGS[w][0]), op, w, "ri")
                    add("%s%s $0x%x, %%%s" % (op, s, im, REGS[w][3]), op, w, "ri")
                for im in IMMS[w][:(6 if full else 3)]:
                    add("%s%s $0x%x, %s" % (op, s, im, MEMS[0]), op, w, "mi")
    for op in UNARY:
        for w in (8, 16, 32):
            s = SUF[w]
            for r in REGS[w][:(5 if full else 3)]:
                add("%s%s %%%s" % (op, s, r), op, w, "r")
            for m in MEMS[:2]:
                add("%s%s %s" % (op, s, m), op, w, "m")
    for op in SHIFT:
        for w in (8, 16, 32):
            s = SUF[w]
            for c in COUNTS:
                if c == 1:
                    add("%s%s %%%s" % (op, s, REGS[w][0]), op, w, "r1", count=1)
                    add("%s%s %s" % (op, s, MEMS[0]), op, w, "m1", count=1)
                add("%s%s $%d, %%%s" % (op, s, c, REGS[w][2]), op, w, "ri", count=c)
                if full or c in (0, 1, 7, 31, 33):
                    add("%s%s $%d, %s" % (op, s, c, MEMS[1]), op, w, "mi", count=c)
            add("%s%s %%cl, %%%s" % (op, s, REGS[w][3]), op, w, "rcl", count="cl")
            add("%s%s %%cl, %s" % (op, s, MEMS[0]), op, w, "mcl", count="cl")
    for op in ("shld", "shrd"):
        for w in (16, 32):
            s = SUF[w]
            for c in COUNTS:
                add("%s%s $%d, %%%s, %%%s" % (op, s, c, REGS[w][3], REGS[w][0]), op, w, "rri", count=c)
            add("%s%s $5, %%%s, %s" % (op, s, REGS[w][2], MEMS[0]), op, w, "mri", count=5)
            add("%s%s %%cl, %%%s, %%%s" % (op, s, REGS[w][2], REGS[w][0]), op, w, "rrcl", count="cl")
    for w in (16, 32):
        s = SUF[w]
        add("imul%s %%%s, %%%s" % (s, REGS[w][1], REGS[w][0]), "imul", w, "rr2")
        add("imul%s %s, %%%s" % (s, MEMS[0], REGS[w][2]), "imul", w, "mr2")
        for im in IMMS[w][:6]:
            add("imul%s $0x%x, %%%s, %%%s" % (s, im, REGS[w][1], REGS[w][3]), "imul", w, "rri")
        for op in ("bt", "bts", "btr", "btc"):
            add("%s%s %%%s, %%%s" % (op, s, REGS[w][1], REGS[w][0]), op, w, "rr")
            for im in (0, 1, 7, 15, 16, 31, 33):
                add("%s%s $%d, %%%s" % (op, s, im, REGS[w][2]), op, w, "ri")
            add("%s%s $3, %s" % (op, s, MEMS[0]), op, w, "mi")
            # register bit offset into memory: the offset selects the word / dword (offset DIV size), not only the bit
            add("%s%s %%%s, %s" % (op, s, REGS[w][1], MEMS[0]), op, w, "rm")
        for op in ("bsf", "bsr"):
            add("%s%s %%%s, %%%s" % (op, s, REGS[w][1], REGS[w][0]), op, w, "rr")
            add("%s%s %s, %%%s" % (op, s, MEMS[0], REGS[w][2]), op, w, "mr")
        for cc in CCS:
            add("cmov%s%s %%%s, %%%s" % (cc, s, REGS[w][1], REGS[w][0]), "cmov", w, "rr", cc=cc)
            if full or w == 32:
                add("cmov%s%s %s, %%%s" % (cc, s, MEMS[0], REGS[w][3]), "cmov", w, "mr", cc=cc)
    for cc in CCS:
        add("set%s %%%s" % (cc, "dl"), "set", 8, "r", cc=cc)
        add("set%s %%%s" % (cc, "bh"), "set", 8, "r", cc=cc)
        add("set%s %s" % (cc, MEMS[0]), "set", 8, "m", cc=cc)
        add("j%s .+0x12" % cc, "jcc", 32, "rel8", cc=cc, targets=[0x12])
        add("j%s .-0x60" % cc, "jcc", 32, "rel8", cc=cc, targets=[-0x60])
        add("j%s .+0x400" % cc, "jcc", 32, "rel32", cc=cc, targets=[0x400])
    for src, dst in (("%cl", "%ax"), ("%dh", "%bx"), ("%cl", "%eax"), ("%bh", "%edx"), ("%cx", "%eax"), ("%bp", "%ebx"), (MEMS[0], "%eax"), (MEMS[1], "%cx")):
        for op in ("movz", "movs"):
            sw = "b" if src in ("%cl", "%dh", "%bh") else "w" if src in ("%cx", "%bp") else None
            dw = "w" if dst in ("%ax", "%bx", "%cx") else "l"
            for s_ in ([sw] if sw else ["b", "w"]):
                if s_ == "w" and dw == "w":
                    continue
                add("%s%s%s %s, %s" % (op, s_, dw, src, dst), op + "x", 32 if dw == "l" else 16, "rr" if sw else "mr")
    for m in MEMS:
        add("leal %s, %%eax" % m, "lea", 32, "m")
        add("leaw %s, %%bx" % m, "lea", 16, "m")
    add("leal 0x12345678(%ebx,%ebp,8), %ecx", "lea", 32, "m")
    add("leal (%eax,%eax,2), %eax", "lea", 32, "m")
    for r in ("eax", "ebx", "ebp", "esp", "esi"):
        add("pushl %%%s" % r, "push", 32, "r")
        add("popl %%%s" % r, "pop", 32, "r")
    for r in ("ax", "bx"):
        add("pushw %%%s" % r, "push", 16, "r")
        add("popw %%%s" % r, "pop", 16, "r")
    add("pushl %s" % MEMS[0], "push", 32, "m")
    add("popl %s" % MEMS[0], "pop", 32, "m")
    add("popl 8(%esp)", "pop", 32, "m_esp")
    # operands addressed through the stack pointer the instruction itself moves: push reads its operand with the OLD esp, pop
    # computes its destination with the NEW one
    for t in ("pushl 8(%esp)", "pushl (%esp)", "pushw 2(%esp)", "pushl 4(%esp,%ecx,2)"):
        add(t, "push", 16 if t.startswith("pushw") else 32, "m_esp")
    for t in ("popl (%esp)", "popw 4(%esp)", "popl 4(%esp,%ecx,2)"):
        add(t, "pop", 16 if t.startswith("popw") else 32, "m_esp")
    add("xchgl %eax, (%esp)", "xchg", 32, "m_esp")
    add("addl %esp, 4(%esp)", "add", 32, "m_esp")
    for im in (0, 0x7f, 0x80, 0xff, 0x12345678, 0xffffffff):
        add("pushl $0x%x" % im, "push", 32, "i")
    add("pushw $0x1234", "push", 16, "i")
    for op in ("clc", "stc", "cmc", "cld", "std", "lahf", "sahf", "cbtw", "cwtl", "cwtd", "cltd", "nop", "leave"):
        add(op, op, 32, "none")
    add("bswap %eax", "bswap", 32, "r")
    add("bswap %ebp", "bswap", 32, "r")
    for op, w in (("movsb", 8), ("movsw", 16), ("movsl", 32), ("stosb", 8), ("stosw", 16), ("stosl", 32), ("lodsb", 8), ("lodsw", 16), ("lodsl", 32),
                  ("scasb", 8), ("scasw", 16), ("scasl", 32), ("cmpsb", 8), ("cmpsw", 16), ("cmpsl", 32)):
        add(op, op[:-1], w, "string")
    add("jmp .+0x12", "jmp", 32, "rel8", targets=[0x12])
    add("jmp .-0x7e", "jmp", 32, "rel8", targets=[-0x7e])
    add("jmp .+0x3fb", "jmp", 32, "rel32", targets=[0x3fb])
    add("jmp .-0x7f0", "jmp", 32, "rel32", targets=[-0x7f0])
    add("call .+0x3fb", "call", 32, "rel32", targets=[0x3fb])
    add("call .-0x400", "call", 32, "rel32", targets=[-0x400])
    add("jmp *%eax", "jmp", 32, "ind_r", ind="eax")
    add("jmp *0x10(%esi)", "jmp", 32, "ind_m", ind="mem")
    add("call *%ebx", "call", 32, "ind_r", ind="ebx")
    add("call *0x10(%esi)", "call", 32, "ind_m", ind="mem")
    add("ret", "ret", 32, "none", ind="stack")
    add("ret $8", "ret", 32, "i", ind="stack")
    for op in ("loop", "loope", "loopne", "jecxz"):
        add("%s .+0x12" % op, op, 32, "rel8", targets=[0x12])
        add("%s .-0x40" % op, op, 32, "rel8", targets=[-0x40])
    # the counter of loop / jecxz is selected by the ADDRESS size (67: cx), not by the operand size (66: still ecx).  A 66-prefixed near
    # branch truncates eip to 16 bits, so these instances run in the executor's code page below 64 KiB (low=True, instruction at 0x8800;
    # 3..5 byte encodings, target +0x20 so that the fall-through stub and the target stub do not overlap)
    add("jcxz .+0x12", "jecxz", 32, "rel8-a16", targets=[0x12])
    for op in ("loop", "loope", "loopne"):
        add("addr16 %s .+0x12" % op, op, 32, "rel8-a16", targets=[0x12])
    add("addr16 loop .-0x40", "loop", 32, "rel8-a16", targets=[-0x40])
    for opc, op in ((0xe3, "jecxz"), (0xe2, "loop"), (0xe1, "loope"), (0xe0, "loopne")):
        add(".byte 0x66, 0x%02x, 0x1d" % opc, op, 32, "rel8-o16", targets=[0x20], low=True)
    add(".byte 0x66, 0x67, 0xe2, 0x1c", "loop", 32, "rel8-a16-o16", targets=[0x20], low=True)
    add(".byte 0x66, 0x67, 0xe3, 0x1c", "jecxz", 32, "rel8-a16-o16", targets=[0x20], low=True)
    for n, cc in enumerate(("o", "no", "b", "ae", "e", "ne", "be", "a", "s", "ns", "p", "np", "l", "ge", "le", "g")):
        if full or n % 3 == 1:
            add(".byte 0x66, 0x%02x, 0x1d" % (0x70 + n), "jcc", 32, "rel8-o16", cc=cc, targets=[0x20], low=True)
        if full or n % 3 == 2:
            add(".byte 0x66, 0x0f, 0x%02x, 0x1b, 0x00" % (0x80 + n), "jcc", 32, "rel16-o16", cc=cc, targets=[0x20], low=True)
    add(".byte 0x66, 0xeb, 0x1d", "jmp", 32, "rel8-o16", targets=[0x20], low=True)
    add(".byte 0x66, 0xe9, 0x1c, 0x00", "jmp", 32, "rel16-o16", targets=[0x20], low=True)
    add(".byte 0x66, 0xe8, 0x1c, 0x00", "call", 32, "rel16-o16", targets=[0x20], low=True)
    add(".byte 0x66, 0xff, 0xd0", "call", 32, "ind_r-o16", ind="eax", low=True)
    add(".byte 0x66, 0xff, 0xe3", "jmp", 32, "ind_r-o16", ind="ebx", low=True)
    add(".byte 0x66, 0xc3", "ret", 32, "none-o16", ind="stack", low=True)
    return out
