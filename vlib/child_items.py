"""Child process used by C13 (hash-seed independence) and C12 (parser-cache configurations).

usage: python -m vlib.child_items <items.json> <out.json>
Each item is processed independently and rendered to a list of strings:
  {"t": "simp", "s": script}          -> [str(expr_simp(build(s)))]
  {"t": "dis",  "b": hex}             -> [intel text, att text, lifted assignment texts (simplified)]
  {"t": "emul", "b": [hex, ...]}      -> dump_id() + ["--"] + dump_mem() after emul_lines
  {"t": "text", "l": line}            -> [intel text, att text] of the instruction carrying the operands as parsed from the line
  {"t": "asm",  "l": line, "att": 0/1} -> sorted candidate encodings (hex) or ["EXC:<type>"]
An exception inside an item is part of its output ("EXC:<type>"), never fatal.
"""
import os
import sys
import json


def run_items(items):
    import logging
    logging.disable(logging.CRITICAL)
    keep_path = list(sys.path)
    devnull = open(os.devnull, "w")
    real = sys.stdout
    sys.stdout = devnull
    try:
        from miasmx.arch.ia32_arch import x86mnemo
        import miasmx.core.parse_ad
        path_state = ["unchanged"] if list(sys.path) == keep_path else ["changed to %r" % (list(sys.path)[:3],)]
        sys.path[:] = keep_path        # ply/yacc.py may leave sys.path clobbered (finding recorded under C12)
        from miasmx.tools import emul_helper
        from miasmx.tools.modint import uint32
        from miasmx.expression.expression import ExprInt
        from miasmx.expression.expression_helper import expr_simp
        from vlib.exprgen import build
        out = []
        for it in items:
            try:
                t = it["t"]
                if t == "syspath":
                    out.append(path_state)
                elif t == "simp":
                    out.append([str(expr_simp(build(it["s"])))])
                elif t == "dis":
                    i = x86mnemo.dis(bytes.fromhex(it["b"]))
                    if i is None:
                        out.append(["None"])
                        continue
                    r = [str(i), i.__str__(asm_format="att_syntax binutils")]
                    try:
                        ex = emul_helper.get_instr_expr(i, ExprInt(uint32(0x1000)), [])
                        r += [str(e) for e in ex]
                        r += [str(expr_simp(e)) for e in ex]
                    except Exception as e:
                        r.append("LIFT-EXC:%s" % type(e).__name__)
                    out.append(r)
                elif t == "emul":
                    lines = [x86mnemo.dis(bytes.fromhex(b)) for b in it["b"]]
                    m = emul_helper.x86_machine()
                    emul_helper.emul_lines(m, lines)
                    out.append(m.dump_id() + ["--"] + m.dump_mem())
                elif t == "text":
                    # an instruction whose operands come from the text parser (symbols kept): parse, encode, decode, put the parsed
                    # operands back and render - the path the repository's own fixpoint test takes for lines with symbols
                    prefix, name, args = x86mnemo.parse_mnemo(it["l"])
                    i = x86mnemo.dis(x86mnemo.asm(it["l"])[0])
                    i.arg = args
                    out.append([str(i), i.__str__(asm_format="att_syntax binutils")])
                elif t == "asm":
                    f = x86mnemo.asm_att if it.get("att") else x86mnemo.asm
                    c = f(it["l"])
                    out.append(sorted(x.hex() if isinstance(x, (bytes, bytearray)) else repr(x) for x in c))
                else:
                    out.append(["?"])
            except Exception as e:
                out.append(["EXC:%s" % type(e).__name__])
        return out
    finally:
        sys.stdout = real


if __name__ == "__main__":
    items = json.load(open(sys.argv[1]))
    res = run_items(items)
    json.dump(res, open(sys.argv[2], "w"))
