"""Hand-written opcode map of the 32-bit PowerPC architecture (UISA/VEA/OEA, "Programming Environments for 32-bit
microprocessors", chapter 8 / appendix A): which base mnemonic the architecture assigns to a word's primary and extended opcode.

    assigned(word) -> (base mnemonic, flags) or None         flags: "rc" (has a record bit), "oe", "lk", "aa", "dot" (always dotted)

The map is cross-checked against LLVM's PowerPC disassembler by selftest() (llvm-mc, when installed): every entry, encoded with
neutral operand fields, must be disassembled by LLVM to the same base mnemonic (after LLVM's simplified mnemonics are mapped back).
Entries LLVM does not implement are listed in NOT_IN_LLVM and rest on this table alone.
"""
import re
import subprocess

# primary opcode only (D-form, I-form, B-form, M-form, SC-form)
PO = {
    3: "twi", 7: "mulli", 8: "subfic", 10: "cmpli", 11: "cmpi", 12: "addic", 13: "addic.", 14: "addi", 15: "addis",
    16: "bc", 17: "sc", 18: "b", 20: "rlwimi", 21: "rlwinm", 23: "rlwnm",
    24: "ori", 25: "oris", 26: "xori", 27: "xoris", 28: "andi.", 29: "andis.",
    32: "lwz", 33: "lwzu", 34: "lbz", 35: "lbzu", 36: "stw", 37: "stwu", 38: "stb", 39: "stbu",
    40: "lhz", 41: "lhzu", 42: "lha", 43: "lhau", 44: "sth", 45: "sthu", 46: "lmw", 47: "stmw",
    48: "lfs", 49: "lfsu", 50: "lfd", 51: "lfdu", 52: "stfs", 53: "stfsu", 54: "stfd", 55: "stfdu",
}
PO_FLAGS = {16: ("aa", "lk"), 18: ("aa", "lk"), 20: ("rc",), 21: ("rc",), 23: ("rc",), 13: ("dot",), 28: ("dot",), 29: ("dot",)}

# primary 19, 10-bit extended opcode (XL-form)
X19 = {0: "mcrf", 16: "bclr", 33: "crnor", 50: "rfi", 129: "crandc", 150: "isync", 193: "crxor", 225: "crnand", 257: "crand",
       289: "creqv", 417: "crorc", 449: "cror", 528: "bcctr"}
X19_FLAGS = {16: ("lk",), 528: ("lk",)}

# primary 31, 10-bit extended opcode (X / XFX-form)
X31 = {0: "cmp", 4: "tw", 19: "mfcr", 20: "lwarx", 23: "lwzx", 24: "slw", 26: "cntlzw", 28: "and", 32: "cmpl", 54: "dcbst", 55: "lwzux",
       60: "andc", 83: "mfmsr", 86: "dcbf", 87: "lbzx", 119: "lbzux", 124: "nor", 144: "mtcrf", 146: "mtmsr", 150: "stwcx.", 151: "stwx",
       183: "stwux", 210: "mtsr", 215: "stbx", 242: "mtsrin", 246: "dcbtst", 247: "stbux", 278: "dcbt", 279: "lhzx", 284: "eqv", 306: "tlbie",
       310: "eciwx", 311: "lhzux", 316: "xor", 339: "mfspr", 343: "lhax", 370: "tlbia", 371: "mftb", 375: "lhaux", 407: "sthx", 412: "orc",
       438: "ecowx", 439: "sthux", 444: "or", 467: "mtspr", 470: "dcbi", 476: "nand", 512: "mcrxr", 533: "lswx", 534: "lwbrx", 535: "lfsx",
       536: "srw", 566: "tlbsync", 567: "lfsux", 595: "mfsr", 597: "lswi", 598: "sync", 599: "lfdx", 631: "lfdux", 659: "mfsrin", 661: "stswx",
       662: "stwbrx", 663: "stfsx", 695: "stfsux", 725: "stswi", 727: "stfdx", 759: "stfdux", 790: "lhbrx", 792: "sraw", 824: "srawi",
       854: "eieio", 918: "sthbrx", 922: "extsh", 954: "extsb", 982: "icbi", 983: "stfiwx", 1014: "dcbz"}
X31_RC = set([24, 26, 28, 60, 124, 284, 316, 412, 444, 476, 536, 792, 824, 922, 954])
X31_DOT = set([150])
# primary 31, 9-bit extended opcode with an OE bit (XO-form) ...
XO31_OE = {8: "subfc", 10: "addc", 40: "subf", 104: "neg", 136: "subfe", 138: "adde", 200: "subfze", 202: "addze", 232: "subfme", 234: "addme",
           235: "mullw", 266: "add", 459: "divwu", 491: "divw"}
# ... and the two XO-form instructions without OE (bit 21 is reserved and must be 0)
XO31_NOOE = {11: "mulhwu", 75: "mulhw"}
# implementation-specific (603/603e software table search); accepted, not required
X31_IMPL = {978: "tlbld", 1010: "tlbli"}

# primary 59 / 63, 5-bit extended opcode (A-form)
A59 = {18: "fdivs", 20: "fsubs", 21: "fadds", 22: "fsqrts", 24: "fres", 25: "fmuls", 28: "fmsubs", 29: "fmadds", 30: "fnmsubs", 31: "fnmadds"}
A63 = {18: "fdiv", 20: "fsub", 21: "fadd", 22: "fsqrt", 23: "fsel", 25: "fmul", 26: "frsqrte", 28: "fmsub", 29: "fmadd", 30: "fnmsub", 31: "fnmadd"}
# primary 63, 10-bit extended opcode (X / XFL-form)
X63 = {0: "fcmpu", 12: "frsp", 14: "fctiw", 15: "fctiwz", 32: "fcmpo", 38: "mtfsb1", 40: "fneg", 64: "mcrfs", 70: "mtfsb0", 72: "fmr", 134: "mtfsfi",
       136: "fnabs", 264: "fabs", 583: "mffs", 711: "mtfsf"}
X63_NORC = set([0, 32, 64])

# 64-bit architecture only: not part of the 32-bit map, but a decoder that names them as the 64-bit architecture does is right
PO_64 = {2: "tdi", 30: "rld", 58: "ld", 62: "std"}
X31_64 = {9: "mulhdu", 21: "ldx", 27: "sld", 53: "ldux", 58: "cntlzd", 68: "td", 73: "mulhd", 84: "ldarx", 149: "stdx", 181: "stdux", 214: "stdcx.",
          341: "lwax", 373: "lwaux", 434: "slbie", 498: "slbia", 539: "srd", 794: "srad", 826: "sradi", 827: "sradi", 986: "extsw"}
XO31_OE_64 = {233: "mulld", 457: "divdu", 489: "divd"}
X63_64 = {814: "fctid", 815: "fctidz", 846: "fcfid"}

NOT_IN_LLVM = set(["eciwx", "ecowx", "tlbld", "tlbli", "mcrxr", "lswx", "stswx", "mfsrin_", "lscbx"])


def assigned(w):
    po = (w >> 26) & 63
    xo10 = (w >> 1) & 1023
    if po in PO:
        return PO[po], PO_FLAGS.get(po, ())
    if po in PO_64:
        return PO_64[po], ("64bit", "family")
    if po == 19:
        if xo10 in X19:
            return X19[xo10], X19_FLAGS.get(xo10, ())
        return None
    if po == 31:
        if xo10 in X31:
            return X31[xo10], (("rc",) if xo10 in X31_RC else ()) + (("dot",) if xo10 in X31_DOT else ())
        if (xo10 & 511) in XO31_OE:
            return XO31_OE[xo10 & 511], ("rc", "oe")
        if xo10 in XO31_NOOE:
            return XO31_NOOE[xo10], ("rc",)
        if xo10 in X31_IMPL:
            return X31_IMPL[xo10], ("impl",)
        if xo10 in X31_64:
            return X31_64[xo10], ("64bit", "rc") if xo10 not in (21, 53, 68, 84, 149, 181, 214, 341, 373, 434, 498) else ("64bit",)
        if (xo10 & 511) in XO31_OE_64:
            return XO31_OE_64[xo10 & 511], ("64bit", "rc", "oe")
        return None
    if po == 59:
        if (xo10 & 31) in A59:
            return A59[xo10 & 31], ("rc",)
        return None
    if po == 63:
        if (xo10 & 31) in A63:
            return A63[xo10 & 31], ("rc",)
        if xo10 in X63:
            return X63[xo10], (() if xo10 in X63_NORC else ("rc",))
        if xo10 in X63_64:
            return X63_64[xo10], ("64bit", "rc")
        return None
    return None


def entries():
    """(word with neutral operand fields, base mnemonic) for every entry of the map"""
    out = []
    neutral = (3 << 21) | (4 << 16) | (5 << 11)
    for po, n in PO.items():
        w = (po << 26) | neutral | 0x10
        if po == 16:
            w = (po << 26) | (12 << 21) | (2 << 16) | 0x10        # bc 12, 2, +0x10
        if po == 17:
            w = (po << 26) | 2
        if po == 18:
            w = (po << 26) | 0x10
        if po in (10, 11):
            w = (po << 26) | (4 << 16) | 0x10                     # bf=0, L=0
        out.append((w, n))
    for xo, n in X19.items():
        w = (19 << 26) | neutral | (xo << 1)
        if n in ("rfi", "isync"):
            w = (19 << 26) | (xo << 1)
        if n == "mcrf":
            w = (19 << 26) | (1 << 23) | (2 << 18) | (xo << 1)
        if n in ("bclr", "bcctr"):
            w = (19 << 26) | (12 << 21) | (2 << 16) | (xo << 1)
        out.append((w, n))
    for xo, n in list(X31.items()) + list(XO31_OE.items()) + list(XO31_NOOE.items()) + list(X31_IMPL.items()):
        w = (31 << 26) | neutral | (xo << 1)
        if n in ("tlbia", "tlbsync", "sync", "eieio"):
            w = (31 << 26) | (xo << 1)
        if n in ("cmp", "cmpl"):
            w = (31 << 26) | (4 << 16) | (5 << 11) | (xo << 1)
        if n in ("mfcr", "mfmsr", "mtmsr"):
            w = (31 << 26) | (3 << 21) | (xo << 1)
        if n in ("mtsr", "mfsr"):
            w = (31 << 26) | (3 << 21) | (4 << 16) | (xo << 1)
        if n in ("mtsrin", "mfsrin", "tlbie", "tlbld", "tlbli"):
            w = (31 << 26) | (3 << 21) | (5 << 11) | (xo << 1)
            if n.startswith("tlb"):
                w = (31 << 26) | (5 << 11) | (xo << 1)
        if n == "mcrxr":
            w = (31 << 26) | (1 << 23) | (xo << 1)
        if n in ("mfspr", "mtspr"):
            w = (31 << 26) | (3 << 21) | (((1008 & 31) << 5 | (1008 >> 5)) << 11) | (xo << 1)
        if n == "mftb":
            w = (31 << 26) | (3 << 21) | (((268 & 31) << 5 | (268 >> 5)) << 11) | (xo << 1)
        if n == "mtcrf":
            w = (31 << 26) | (3 << 21) | (0x81 << 12) | (xo << 1)
        if n in ("subfze", "addze", "subfme", "addme", "neg", "cntlzw", "extsh", "extsb"):
            w = (31 << 26) | (3 << 21) | (4 << 16) | (xo << 1)
        if n in ("dcbst", "dcbf", "dcbtst", "dcbt", "dcbi", "icbi", "dcbz"):
            w = (31 << 26) | (4 << 16) | (5 << 11) | (xo << 1)
        if n == "stwcx.":
            w |= 1
        out.append((w, n))
    for po, tab in ((59, A59), (63, A63)):
        for xo, n in tab.items():
            w = (po << 26) | (1 << 21) | (2 << 16) | (3 << 11) | (4 << 6) | (xo << 1)
            if n in ("fdivs", "fsubs", "fadds", "fdiv", "fsub", "fadd"):
                w = (po << 26) | (1 << 21) | (2 << 16) | (3 << 11) | (xo << 1)
            if n in ("fmuls", "fmul"):
                w = (po << 26) | (1 << 21) | (2 << 16) | (4 << 6) | (xo << 1)
            if n in ("fsqrts", "fres", "fsqrt", "frsqrte"):
                w = (po << 26) | (1 << 21) | (3 << 11) | (xo << 1)
            out.append((w, n))
    for xo, n in X63.items():
        w = (63 << 26) | (1 << 21) | (3 << 11) | (xo << 1)
        if n in ("fcmpu", "fcmpo"):
            w = (63 << 26) | (1 << 23) | (2 << 16) | (3 << 11) | (xo << 1)
        if n in ("mtfsb0", "mtfsb1"):
            w = (63 << 26) | (5 << 21) | (xo << 1)
        if n == "mcrfs":
            w = (63 << 26) | (1 << 23) | (2 << 18) | (xo << 1)
        if n == "mtfsfi":
            w = (63 << 26) | (1 << 23) | (5 << 12) | (xo << 1)
        if n == "mffs":
            w = (63 << 26) | (1 << 21) | (xo << 1)
        if n == "mtfsf":
            w = (63 << 26) | (0x81 << 17) | (3 << 11) | (xo << 1)
        out.append((w, n))
    return out


# LLVM's simplified mnemonics that can appear for the neutral encodings above, mapped back to the base mnemonic
LLVM_ALIAS = {"cmpw": "cmp", "cmplw": "cmpl", "cmpwi": "cmpi", "cmplwi": "cmpli", "bt": "bc", "btlr": "bclr", "btctr": "bcctr", "twi": "twi", "tw": "tw",
              "mftb": "mftb", "mftbu": "mftb", "mfspr": "mfspr", "mtspr": "mtspr", "twlgti": "twi", "twlgt": "tw", "tdi": "tdi", "blt": "bc", "bltlr": "bclr", "bltctr": "bcctr",
              "bgt": "bc", "bgtlr": "bclr", "bgtctr": "bcctr", "beq": "bc", "beqlr": "bclr", "beqctr": "bcctr", "mr": "or", "nop": "ori", "li": "addi", "lis": "addis",
              "slwi": "rlwinm", "srwi": "rlwinm", "clrlwi": "rlwinm", "rotlwi": "rlwinm", "rotlw": "rlwnm", "not": "nor", "mtcr": "mtcrf", "lwsync": "sync", "ptesync": "sync",
              "msync": "sync", "hwsync": "sync", "mfocrf": "mfcr", "mtocrf": "mtcrf", "isellt": "isel", "tlbiel": "tlbiel", "sub": "subf", "subc": "subfc"}


def llvm_mnemonics(words):
    """LLVM's (first) mnemonic per word, None where it reports an invalid encoding"""
    import shutil
    exe = shutil.which("llvm-mc") or shutil.which("llvm-mc-14")
    if exe is None:
        return None
    text = "".join("0x%02x 0x%02x 0x%02x 0x%02x\n" % ((w >> 24) & 255, (w >> 16) & 255, (w >> 8) & 255, w & 255) for w in words)
    p = subprocess.run([exe, "--disassemble", "--triple=powerpc", "-"], input=text.encode(), stdout=subprocess.PIPE, stderr=subprocess.PIPE, timeout=600)
    bad = set(int(m.group(1)) for m in re.finditer(r"<stdin>:(\d+):1: warning: invalid instruction encoding", p.stderr.decode(errors="replace")))
    lines = [l.strip() for l in p.stdout.decode(errors="replace").splitlines() if l.startswith("\t") and not l.strip().startswith(".")]
    out, it = [], iter(lines)
    for k in range(len(words)):
        if (k + 1) in bad:
            out.append(None)
        else:
            l = next(it, None)
            out.append(l.split()[0] if l else None)
    return out


def selftest():
    """-> (number of entries compared with LLVM, list of disagreements) ; (0, None) when llvm-mc is not installed"""
    ents = entries()
    got = llvm_mnemonics([w for w, _ in ents])
    if got is None:
        return 0, None
    bad = []
    n = 0
    for (w, name), g in zip(ents, got):
        base = name.rstrip(".")
        if g is None:
            if name not in NOT_IN_LLVM:
                bad.append("%08x %s: LLVM reports an invalid encoding" % (w, name))
            continue
        n += 1
        g0 = g.rstrip(".")
        g0 = LLVM_ALIAS.get(g0, g0)
        if g0 != base:
            bad.append("%08x %s: LLVM says %s" % (w, name, g))
    return n, bad
