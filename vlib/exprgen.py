"""G3 - well-typed IR expressions as *scripts* (JSON-able constructor text) + builder + strategies.

script forms
  ["int", size, value]                 ["id", name, size]
  ["mem", addr, size, segm|None]       ["op", opname, [args]]
  ["cond", c, a, b]                    ["slice", x, start, stop]
  ["compose", [[x, start, stop], ...]] ["aff", dst, src]
build(script) creates fresh Expr objects through the public constructors only.
"""
from hypothesis import strategies as st

WIDTHS = [1, 8, 16, 32, 64]
ASSOC = ["+", "*", "^", "&", "|"]
IDS = {1: ["p1", "q1"], 8: ["a8", "b8", "c8"], 16: ["a16", "b16"], 32: ["a", "b", "c", "d"], 64: ["a64", "b64"]}
SEGS = [None, None, ["id", "ds", 16], ["id", "es", 16], ["int", 16, 0], ["int", 16, 0x23]]      # constant selectors too (a null selector is falsy wherever the code tests truth instead of identity: seed C15-r8-2)


def E():
    from miasmx.expression import expression
    return expression


def M():
    from miasmx.tools import modint
    return modint


def build(s):
    ex = E()
    k = s[0]
    if k == "int":
        return ex.ExprInt(getattr(M(), "uint%d" % s[1])(s[2]))
    if k == "id":
        return ex.ExprId(s[1], s[2])
    if k == "regid":
        return ex.ExprId(s[1], s[2], is_reg=True)
    if k == "mem":
        return ex.ExprMem(build(s[1]), s[2], build(s[3]) if s[3] is not None else None)
    if k == "op":
        return ex.ExprOp(s[1], *[build(a) for a in s[2]])
    if k == "cond":
        return ex.ExprCond(build(s[1]), build(s[2]), build(s[3]))
    if k == "slice":
        return ex.ExprSlice(build(s[1]), s[2], s[3])
    if k == "compose":
        return ex.ExprCompose([(build(x), a, b) for x, a, b in s[1]])
    if k == "aff":
        return ex.ExprAff(build(s[1]), build(s[2]))
    raise ValueError("bad script %r" % (s,))


def to_script(e):
    """inverse of build for the seven node kinds (used to record results in replay files)"""
    c = e.__class__.__name__
    if c == "ExprInt":
        return ["int", e.arg.size, int(e.arg) & ((1 << e.arg.size) - 1)]
    if c == "ExprId":
        return ["regid" if getattr(e, "is_reg", False) else "id", e.name, e.size]
    if c == "ExprMem":
        return ["mem", to_script(e.arg), e.size, to_script(e.segm) if e.segm is not None else None]
    if c == "ExprOp":
        return ["op", e.op, [to_script(a) for a in e.args]]
    if c == "ExprCond":
        return ["cond", to_script(e.cond), to_script(e.src1), to_script(e.src2)]
    if c == "ExprSlice":
        return ["slice", to_script(e.arg), e.start, e.stop]
    if c == "ExprCompose":
        return ["compose", [[to_script(x), a, b] for x, a, b in e.args]]
    if c == "ExprAff":
        return ["aff", to_script(e.dst), to_script(e.src)]
    raise ValueError("node %s" % c)


def swidth(s):
    k = s[0]
    if k == "int": return s[1]
    if k in ("id", "regid"): return s[2]
    if k == "mem": return s[2]
    if k == "op": return swidth(s[2][0])
    if k == "cond": return swidth(s[2])
    if k == "slice": return s[3] - s[2]
    if k == "compose": return max(x[2] for x in s[1]) - min(x[1] for x in s[1])
    if k == "aff": return swidth(s[1])


def sids(s, out=None):
    out = {} if out is None else out
    k = s[0]
    if k in ("id", "regid"):
        out[s[1]] = s[2]
    elif k == "mem":
        sids(s[1], out)
        if s[3] is not None: sids(s[3], out)
    elif k == "op":
        for a in s[2]: sids(a, out)
    elif k == "cond":
        sids(s[1], out); sids(s[2], out); sids(s[3], out)
    elif k == "slice":
        sids(s[1], out)
    elif k == "compose":
        for x in s[1]: sids(x[0], out)
    elif k == "aff":
        sids(s[1], out); sids(s[2], out)
    return out


def snodes(s):
    k = s[0]
    if k in ("int", "id", "regid"): return 1
    if k == "mem": return 1 + snodes(s[1])
    if k == "op": return 1 + sum(snodes(a) for a in s[2])
    if k == "cond": return 1 + snodes(s[1]) + snodes(s[2]) + snodes(s[3])
    if k == "slice": return 1 + snodes(s[1])
    if k == "compose": return 1 + sum(snodes(x[0]) for x in s[1])
    if k == "aff": return 1 + snodes(s[1]) + snodes(s[2])


def sshow(s):
    """compact text of a script for samples"""
    k = s[0]
    if k == "int": return "0x%X:%d" % (s[2], s[1])
    if k in ("id", "regid"): return s[1]
    if k == "mem": return "%s@%d[%s]" % ((sshow(s[3]) + ":") if s[3] else "", s[2], sshow(s[1]))
    if k == "op":
        if len(s[2]) == 1: return "(%s %s)" % (s[1], sshow(s[2][0]))
        return "(" + (" %s " % s[1]).join(sshow(a) for a in s[2]) + ")"
    if k == "cond": return "(%s ? %s : %s)" % (sshow(s[1]), sshow(s[2]), sshow(s[3]))
    if k == "slice": return "%s[%d:%d]" % (sshow(s[1]), s[2], s[3])
    if k == "compose": return "{" + ", ".join("%s,%d,%d" % (sshow(x), a, b) for x, a, b in s[1]) + "}"
    if k == "aff": return "%s = %s" % (sshow(s[1]), sshow(s[2]))


# ---- value strategies -------------------------------------------------------
def boundary_vals(w):
    v = set([0, 1, (1 << w) - 1, 1 << (w - 1), (1 << (w - 1)) - 1, 2, 3, 4, 7, 8, 15, 16, 31, 32, 0x10, 0x80, 0xFF, 0x7F])
    for k in (4, 7, 8, 15, 16, 31):
        if k < w:
            v.add(1 << k); v.add((1 << k) - 1)
    return sorted(x & ((1 << w) - 1) for x in v)


def value(w):
    if w == 1:
        return st.integers(0, 1)
    return st.one_of(st.sampled_from(boundary_vals(w)), st.integers(0, (1 << w) - 1))


def const(w):
    return value(w).map(lambda v: ["int", w, v])


def ident(w):
    return st.sampled_from(IDS[w]).map(lambda n: ["id", n, w])


def count_const(w, cw):
    """shift/rotate count constants: classes 0, 1, 2..w-1, w, >w"""
    wide = [1 << w, (1 << w) + 1, (1 << w) | 0x80 >> (8 - min(w, 8)), (1 << cw) - 1] if cw > w else []      # counts that only a wider count type can hold (seed C06-r8-3)
    return st.sampled_from(sorted(set([0, 1, 2, 3, 4, 7, 8, w - 1, w, w + 1, 31, 32] + wide))).filter(lambda v: 0 <= v < (1 << cw)).map(lambda v: ["int", cw, v])


@st.composite
def expr(draw, w, depth=3, mem=True, ops_extra=True, pool=None):
    """a well-typed expression script of width w.  `pool` collects the sub-scripts generated so far for this top-level expression:
    one draw in eight below the root re-uses an earlier sub-script of the same width verbatim (the same condition in a nested
    conditional, the same term twice under an operator, the same address in two cells) - shapes that independent draws never repeat"""
    top = pool is None
    if top:
        pool = {}
    key = (w, bool(mem), bool(ops_extra))
    if not top and pool.get(key) and draw(st.integers(0, 7)) == 0:
        return draw(st.sampled_from(pool[key]))
    r_ = draw(_expr(w, depth, mem, ops_extra, pool))
    if r_[0] not in ("int", "id"):
        pool.setdefault(key, []).append(r_)
    return r_


@st.composite
def _expr(draw, w, depth, mem, ops_extra, pool):
    def expr(w, depth=3, mem=True, ops_extra=ops_extra):
        return globals()["expr"](w, depth, mem, ops_extra, pool)
    if depth <= 0 or draw(st.integers(0, 9)) < 3:
        r = draw(st.integers(0, 9))
        if r < 4 or (w == 1 and r < 7):
            return draw(ident(w))
        if r < 8 or not mem or w < 8:
            return draw(const(w))
        a = draw(expr(32, min(depth - 1, 1), mem=False))
        return ["mem", a, w, draw(st.sampled_from(SEGS))]
    kind = draw(st.sampled_from(["assoc", "assoc", "assoc", "neg", "sub", "shift", "rot", "eq", "parity", "cond",
                                 "slice", "compose", "mem", "uninterp", "nested"]))
    d = depth - 1
    if kind == "assoc":
        op = draw(st.sampled_from(ASSOC))
        n = draw(st.integers(2, 4))
        return ["op", op, [draw(expr(w, d, mem)) for _ in range(n)]]
    if kind == "nested":
        op = draw(st.sampled_from(ASSOC))
        inner = ["op", op, [draw(expr(w, d - 1, mem)) for _ in range(draw(st.integers(2, 3)))]]
        rest = [draw(expr(w, d - 1, mem)) for _ in range(draw(st.integers(1, 2)))]
        pos = draw(st.integers(0, len(rest)))
        return ["op", op, rest[:pos] + [inner] + rest[pos:]]
    if kind == "neg":
        return ["op", "-", [draw(expr(w, d, mem))]]
    if kind == "sub":
        return ["op", "-", [draw(expr(w, d, mem)), draw(expr(w, d, mem))]]
    if kind == "shift" and w > 1:
        op = draw(st.sampled_from(["<<", ">>", "a>>"]))
        cw = draw(st.sampled_from([w, w, 8, 8, 32 if w < 32 else 64])) if w >= 8 else w
        cnt = draw(st.one_of(count_const(w, cw), expr(cw, min(d, 1), mem)))
        return ["op", op, [draw(expr(w, d, mem)), cnt]]
    if kind == "rot" and w in (8, 16, 32):
        op = draw(st.sampled_from(["<<<", ">>>"]))
        cw = draw(st.sampled_from([w, 8]))
        cnt = draw(st.one_of(count_const(w, cw), expr(cw, min(d, 1), mem)))
        return ["op", op, [draw(expr(w, d, mem)), cnt]]
    if kind == "eq":
        return ["op", "==", [draw(expr(w, d, mem)), draw(expr(w, d, mem))]]
    if kind == "parity":
        return ["op", "parity", [draw(expr(w, d, mem))]]
    if kind == "cond":
        cw = draw(st.sampled_from(WIDTHS))
        c = draw(expr(cw, d, mem))
        a, b = draw(expr(w, d, mem)), draw(expr(w, d, mem))
        nest = draw(st.integers(0, 7))
        if nest < 2:
            # a conditional on the SAME condition inside one arm (what two shifts by the same count leave in a flag)
            inner = ["cond", c, draw(expr(w, d - 1, mem)), draw(expr(w, d - 1, mem))]
            if nest == 0:
                a = inner
            else:
                b = inner
        return ["cond", c, a, b]
    if kind == "slice":
        bigger = [x for x in WIDTHS if x >= w and x > 1]
        if bigger:
            w2 = draw(st.sampled_from(bigger))
            start = draw(st.sampled_from(sorted(set([0, w2 - w, min(8, w2 - w), min(1, w2 - w)]))))
            return ["slice", draw(expr(w2, d, mem)), start, start + w]
    if kind == "compose" and w >= 8:
        parts = draw(partition(w))
        out, pos = [], 0
        for pw in parts:
            out.append([draw(part(pw, d, mem)), pos, pos + pw])
            pos += pw
        return ["compose", out]
    if kind == "mem" and mem and w >= 8:
        # one time in three the address itself reads memory (pointer chasing)
        return ["mem", draw(expr(32, d, mem=(draw(st.integers(0, 2)) == 0))), w, draw(st.sampled_from(SEGS))]
    if kind == "uninterp" and ops_extra and w >= 8:
        op = draw(st.sampled_from(["fadd", "MMX", "opaque"]))
        return ["op", op, [draw(expr(w, d, mem)), draw(expr(w, d, mem))]]
    return draw(expr(w, 0, mem))


@st.composite
def partition(draw, w):
    """slot widths tiling [0,w)"""
    cuts = set()
    n = draw(st.integers(1, 3))
    for _ in range(n):
        cuts.add(draw(st.sampled_from([c for c in (1, 3, 4, 7, 8, 12, 16, 24, 31, 32, 48, 63) if c < w] or [w])))
    cuts = sorted(c for c in cuts if 0 < c < w)
    parts, last = [], 0
    for c in cuts + [w]:
        parts.append(c - last)
        last = c
    return parts


@st.composite
def part(draw, pw, depth, mem):
    """an expression of (possibly odd) width pw: direct when pw is a standard width, otherwise a slice"""
    if pw in WIDTHS and draw(st.booleans()):
        return draw(expr(pw, depth, mem))
    bigger = [x for x in WIDTHS if x >= pw and x > 1]
    w2 = draw(st.sampled_from(bigger))
    start = draw(st.sampled_from(sorted(set([0, w2 - pw]))))
    return ["slice", draw(expr(w2, depth, mem)), start, start + pw]


def any_expr(depth=3, mem=True):
    return st.sampled_from(WIDTHS).flatmap(lambda w: expr(w, depth, mem))


# ---- valuations (G4) -------------------------------------------------------
@st.composite
def valuation(draw, ids):
    """ids: dict name -> size; returns (dict name -> value, memseed)"""
    v = {}
    for n in sorted(ids):
        v[n] = draw(value(ids[n]))
    return v, draw(st.integers(0, 2 ** 32))


def fixed_valuations(ids, k, salt=0):
    """k deterministic, boundary-biased valuations (no Hypothesis): used inside oracles so that each
    generated expression is judged on several valuations"""
    import hashlib
    out = []
    names = sorted(ids)
    for i in range(k):
        v = {}
        for n in names:
            w = ids[n]
            h = int.from_bytes(hashlib.blake2b(repr((salt, i, n)).encode(), digest_size=16).digest(), "little")
            b = boundary_vals(w)
            if i == 0:
                v[n] = 0
            elif i == 1:
                v[n] = (1 << w) - 1
            elif h & 3 == 0:
                v[n] = b[(h >> 8) % len(b)]
            else:
                v[n] = (h >> 8) & ((1 << w) - 1)
        out.append((v, (salt * 131 + i) & 0xFFFFFFFF))
    return out


# ---- one-step, width-preserving mutation of a script ------------------------
def paths(s, prefix=()):
    """all node paths of a script (tuples of child selectors)"""
    out = [prefix]
    k = s[0]
    if k == "mem":
        out += paths(s[1], prefix + ((1,),))
        if s[3] is not None:
            out += paths(s[3], prefix + ((3,),))
    elif k == "op":
        for i, a in enumerate(s[2]):
            out += paths(a, prefix + ((2, i),))
    elif k == "cond":
        for i in (1, 2, 3):
            out += paths(s[i], prefix + ((i,),))
    elif k == "slice":
        out += paths(s[1], prefix + ((1,),))
    elif k == "compose":
        for i, x in enumerate(s[1]):
            out += paths(x[0], prefix + ((1, i, 0),))
    elif k == "aff":
        out += paths(s[1], prefix + ((1,),)) + paths(s[2], prefix + ((2,),))
    return out


def get_at(s, path):
    for sel in path:
        for i in sel:
            s = s[i]
    return s


def set_at(s, path, new):
    if not path:
        return new
    import copy
    s = copy.deepcopy(s)
    cur = s
    flat = [i for sel in path for i in sel]
    for i in flat[:-1]:
        cur = cur[i]
    cur[flat[-1]] = new
    return s


@st.composite
def mutate(draw, s):
    """a script that differs from s in exactly one field, with the same width; returns (kind, script)
    or (None, s) when the chosen node offers no mutation"""
    ps = paths(s)
    for _ in range(6):
        p = draw(st.sampled_from(ps))
        n = get_at(s, p)
        k = n[0]
        if k == "int":
            v = draw(st.sampled_from([n[2] ^ 1, (n[2] + 1) & ((1 << n[1]) - 1), n[2] ^ (1 << (n[1] - 1))]))
            if v != n[2]:
                return "const", set_at(s, p, ["int", n[1], v])
        elif k == "id":
            others = [x for x in IDS.get(n[2], []) if x != n[1]] or [n[1] + "_"]
            return "name", set_at(s, p, ["id", draw(st.sampled_from(others)), n[2]])
        elif k == "mem":
            segs = [x for x in SEGS if x != n[3]]
            return "segment", set_at(s, p, ["mem", n[1], n[2], draw(st.sampled_from(segs))])
        elif k == "op":
            args = n[2]
            choices = []
            if n[1] in ASSOC:
                choices += ["arity+", "opname"]
                if len(args) >= 3:
                    choices.append("arity-")
                if len(args) >= 2 and args[0] != args[-1]:
                    choices.append("order")
            elif n[1] in ("<<", ">>", "a>>"):
                choices.append("shiftop")
            elif n[1] in ("<<<", ">>>"):
                choices.append("rotop")
            elif n[1] == "-" and len(args) == 2 and args[0] != args[1]:
                choices.append("order")
            if not choices:
                continue
            c = draw(st.sampled_from(choices))
            if c == "arity+":
                return c, set_at(s, p, ["op", n[1], args + [args[draw(st.integers(0, len(args) - 1))]]])
            if c == "arity-":
                return c, set_at(s, p, ["op", n[1], args[:-1]])
            if c == "opname":
                return c, set_at(s, p, ["op", draw(st.sampled_from([o for o in ASSOC if o != n[1]])), args])
            if c == "order":
                return c, set_at(s, p, ["op", n[1], [args[-1]] + args[1:-1] + [args[0]]])
            if c == "shiftop":
                return c, set_at(s, p, ["op", draw(st.sampled_from([o for o in ("<<", ">>", "a>>") if o != n[1]])), args])
            if c == "rotop":
                return c, set_at(s, p, ["op", "<<<" if n[1] == ">>>" else ">>>", args])
        elif k == "cond":
            if n[2] != n[3]:
                return "branches", set_at(s, p, ["cond", n[1], n[3], n[2]])
        elif k == "slice":
            w = swidth(n[1])
            cands = [x for x in (n[2] - 1, n[2] + 1, 0, w - (n[3] - n[2])) if 0 <= x and x + (n[3] - n[2]) <= w and x != n[2]]
            if cands:
                a = draw(st.sampled_from(cands))
                return "slicebounds", set_at(s, p, ["slice", n[1], a, a + (n[3] - n[2])])
        elif k == "compose":
            parts = n[1]
            same = [(i, j) for i in range(len(parts)) for j in range(i + 1, len(parts))
                    if parts[i][2] - parts[i][1] == parts[j][2] - parts[j][1] and parts[i][0] != parts[j][0]]
            if same:
                i, j = draw(st.sampled_from(same))
                q = [list(x) for x in parts]
                q[i][0], q[j][0] = parts[j][0], parts[i][0]
                return "slots", set_at(s, p, ["compose", q])
    return None, s


def unify_rotate_counts(s):
    """the same script with every rotate count brought to the width of the rotated operand (constants re-typed, other counts
    zero-extended or truncated): an intervention that removes exactly the ingredient of the open rotate-merge finding"""
    if not isinstance(s, list) or not s:
        return s
    k = s[0]
    if k == "op":
        args = [unify_rotate_counts(a) for a in s[2]]
        if s[1] in ("<<<", ">>>") and len(args) == 2:
            w, cw = swidth(args[0]), swidth(args[1])
            if cw != w:
                c = args[1]
                if c[0] == "int":
                    c = ["int", w, c[2] & ((1 << w) - 1)]
                elif cw < w:
                    slots, pos = [[c, 0, cw]], cw
                    while pos < w:
                        ch = [x for x in (64, 32, 16, 8, 1) if pos + x <= w][0]
                        slots.append([["int", ch, 0], pos, pos + ch])
                        pos += ch
                    c = ["compose", slots]
                elif cw > w:
                    c = ["slice", c, 0, w]
                args = [args[0], c]
        return ["op", s[1], args]
    if k == "mem":
        return ["mem", unify_rotate_counts(s[1]), s[2], unify_rotate_counts(s[3]) if s[3] is not None else None]
    if k == "cond":
        return ["cond", unify_rotate_counts(s[1]), unify_rotate_counts(s[2]), unify_rotate_counts(s[3])]
    if k == "slice":
        return ["slice", unify_rotate_counts(s[1]), s[2], s[3]]
    if k == "compose":
        return ["compose", [[unify_rotate_counts(x), a, b] for x, a, b in s[1]]]
    return s


