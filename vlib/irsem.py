"""R4 - reference interpreter of the miasmX IR ("standard bit-vector meaning").

Walks Expr objects by class *name* and public fields only; it never imports
expression_helper / expression_eval_abstract.  All arithmetic is done with
unbounded Python integers and reduced at each node.

    ev(e, env)      value of e (an int in [0, 2^width))
    width(e)        bit width of e, computed independently of Expr.get_size()
    to_py(e)        Python source of the same function (for exhaustive sweeps)

env: Env(ids, memseed, membytes) -- ids maps identifier name -> int, memory is a
pure function addr -> byte (hash of (memseed, addr)) overridden by membytes.
The segment of an ExprMem is not part of the address (flat model; this is also
what the repository's own C back end toC() does).
"""
import hashlib

ASSOC = ("+", "*", "^", "&", "|")


class Unsupported(Exception):
    pass


class Undefined(Exception):
    """the operator's result is architecturally unconstrained for these operands (bsf/bsr of 0)"""


def _h(*parts):
    d = hashlib.blake2b(repr(parts).encode(), digest_size=16).digest()
    return int.from_bytes(d, "little")


class Env(object):
    def __init__(self, ids=None, memseed=0, membytes=None, default_id=None):
        self.ids = ids if ids is not None else {}
        self.memseed = memseed
        self.membytes = membytes if membytes is not None else {}
        self.default_id = default_id
        self.read_ids = set()
        self.read_mem = set()
        self.loads = []             # (address, bytes) of every load, in evaluation order

    def id(self, name, size):
        self.read_ids.add(name)
        if name in self.ids:
            return self.ids[name] & ((1 << size) - 1)
        if self.default_id is not None:
            return self.default_id(name, size) & ((1 << size) - 1)
        return _h("id", self.memseed, name) & ((1 << size) - 1)

    def byte(self, addr):
        addr &= 0xFFFFFFFF
        self.read_mem.add(addr)
        if addr in self.membytes:
            return self.membytes[addr]
        return _h("m", self.memseed, addr) & 0xFF

    def load(self, addr, nbytes):
        self.loads.append((addr & 0xFFFFFFFF, nbytes))
        v = 0
        for i in range(nbytes):
            v |= self.byte(addr + i) << (8 * i)
        return v


def cname(e):
    return e.__class__.__name__


def width(e):
    c = cname(e)
    if c == "ExprInt":
        return e.arg.size
    if c == "ExprId":
        return e.size
    if c == "ExprMem":
        return e.size
    if c == "ExprOp":
        return width(e.args[0])
    if c == "ExprCond":
        return width(e.src1)
    if c == "ExprSlice":
        return e.stop - e.start
    if c == "ExprCompose":
        return max(x[2] for x in e.args) - min(x[1] for x in e.args)
    if c == "ExprAff":
        return width(e.dst)
    raise Unsupported("node %s" % c)


def sx(v, w):
    return v - (1 << w) if v >> (w - 1) & 1 else v


def parity8(v):
    return 1 - bin(v & 0xFF).count("1") % 2


def rcl(v, cnt, cf, w):
    """rotate v:cf (w+1 bits, cf above the msb) left by cnt mod (w+1) -> (result, cf)"""
    cnt %= (w + 1)
    t = (cf << w) | v
    t = ((t << cnt) | (t >> (w + 1 - cnt))) & ((1 << (w + 1)) - 1) if cnt else t
    return t & ((1 << w) - 1), t >> w


def rcr(v, cnt, cf, w):
    cnt %= (w + 1)
    t = (cf << w) | v
    t = ((t >> cnt) | (t << (w + 1 - cnt))) & ((1 << (w + 1)) - 1) if cnt else t
    return t & ((1 << w) - 1), t >> w


def apply_op(op, vals, ws, w, uninterp="hash"):
    """vals: operand values, ws: operand widths, w: result width (= ws[0])."""
    m = (1 << w) - 1
    n = len(vals)
    if op in ASSOC and n >= 1:
        r = vals[0]
        for v in vals[1:]:
            if op == "+": r += v
            elif op == "*": r *= v
            elif op == "^": r ^= v
            elif op == "&": r &= v
            else: r |= v
        return r & m
    if op == "-":
        if n == 1:
            return (-vals[0]) & m
        if n == 2:
            return (vals[0] - vals[1]) & m
    if n == 2:
        a, b = vals
        if op == "<<":
            return (a << b) & m if b < w else 0
        if op == ">>":
            return a >> b if b < w else 0
        if op == "a>>":
            s = sx(a, w)
            return (s >> min(b, w)) & m
        if op == "<<<":
            c = b % w
            return ((a << c) | (a >> (w - c))) & m if c else a
        if op == ">>>":
            c = b % w
            return ((a >> c) | (a << (w - c))) & m if c else a
        if op == "==":
            return 1 if a == b else 0
        if op == "<":
            return 1 if a < b else 0
        if op in ("umul16_lo", "umul32_lo"):
            return (a * b) & m
        if op in ("umul16_hi", "umul32_hi"):
            return ((a * b) >> w) & m
        if op in ("imul16_lo", "imul32_lo"):
            return (sx(a, w) * sx(b, ws[1])) & m
        if op in ("imul16_hi", "imul32_hi"):
            return ((sx(a, w) * sx(b, ws[1])) >> w) & m
        if op == "umul08":
            return ((a & 0xFF) * (b & 0xFF)) & 0xFFFF & m
        if op == "imul08":
            return (sx(a & 0xFF, 8) * sx(b & 0xFF, 8)) & 0xFFFF & m
    if n == 1:
        a = vals[0]
        if op == "parity":
            return parity8(a)
        if op == "!":
            return (~a) & m
        if op in ("bsf", "bsr"):
            if a == 0:
                raise Undefined(op)
            return ((a & -a).bit_length() - 1) if op == "bsf" else (a.bit_length() - 1)
    if n == 3:
        a, b, c = vals
        if op in ("div8", "div16", "div32", "rem8", "rem16", "rem32") and c != 0:
            big = (a << w) | b
            return (big // c if op.startswith("div") else big % c) & m
        if op in ("idiv8", "idiv16", "idiv32", "irem8", "irem16", "irem32") and c != 0:
            big = sx((a << w) | b, 2 * w)
            d = sx(c, ws[2])
            q = abs(big) // abs(d)
            if (big < 0) != (d < 0):
                q = -q
            r = big - q * d
            return (q if op.startswith("idiv") else r) & m
        # rotate through carry: the lifter passes the raw count (cl / imm8); the architectural count is
        # (count & 0x1F) mod (w+1), and that masking is part of the operator's meaning
        if op == "<<<c_rez":
            return rcl(a, b & 0x1F, c & 1, w)[0]
        if op == "<<<c_cf":
            return rcl(a, b & 0x1F, c & 1, w)[1]
        if op == ">>>c_rez":
            return rcr(a, b & 0x1F, c & 1, w)[0]
        if op == ">>>c_cf":
            return rcr(a, b & 0x1F, c & 1, w)[1]
    if uninterp == "raise":
        raise Unsupported("operator %s/%d" % (op, n))
    # uninterpreted: a fixed pseudo-random function of (name, argument values, result width);
    # respects congruence, invents no meaning
    return _h("op", op, tuple(vals), w) & m


INTERPRETED_1 = set(["parity", "!", "-"])
INTERPRETED_2 = set(list(ASSOC) + ["-", "<<", ">>", "a>>", "<<<", ">>>", "==", "<", "umul16_lo", "umul32_lo",
                     "umul16_hi", "umul32_hi", "imul16_lo", "imul32_lo", "imul16_hi", "imul32_hi", "umul08", "imul08"])
INTERPRETED_3 = set(["div8", "div16", "div32", "rem8", "rem16", "rem32", "idiv8", "idiv16", "idiv32",
                     "irem8", "irem16", "irem32", "<<<c_rez", "<<<c_cf", ">>>c_rez", ">>>c_cf"])


def is_interpreted(op, n):
    if op in ASSOC:
        return n >= 1
    if n == 1:
        return op in INTERPRETED_1 or op in ("bsf", "bsr")
    if n == 2:
        return op in INTERPRETED_2
    if n == 3:
        return op in INTERPRETED_3
    return False


def ev(e, env, uninterp="hash"):
    c = cname(e)
    if c == "ExprInt":
        return int(e.arg) & ((1 << e.arg.size) - 1)
    if c == "ExprId":
        return env.id(e.name, e.size)
    if c == "ExprMem":
        a = ev(e.arg, env, uninterp)
        if e.size % 8:
            raise Unsupported("memory width %r" % (e.size,))
        return env.load(a, e.size // 8)
    if c == "ExprOp":
        vals = [ev(a, env, uninterp) for a in e.args]
        ws = [width(a) for a in e.args]
        return apply_op(e.op, vals, ws, ws[0], uninterp)
    if c == "ExprCond":
        # all three are evaluated so that the read sets recorded by env are the syntactic ones
        cv = ev(e.cond, env, uninterp)
        a = ev(e.src1, env, uninterp)
        b = ev(e.src2, env, uninterp)
        return a if cv != 0 else b
    if c == "ExprSlice":
        return (ev(e.arg, env, uninterp) >> e.start) & ((1 << (e.stop - e.start)) - 1)
    if c == "ExprCompose":
        lo = min(x[1] for x in e.args)
        r = 0
        for x, s, t in e.args:
            r |= (ev(x, env, uninterp) & ((1 << (t - s)) - 1)) << (s - lo)
        return r
    raise Unsupported("node %s" % c)


def ev_lazy(e, env, uninterp="hash"):
    """Like ev but ExprCond evaluates only the selected branch (used for dependency probing and
    for executing lifted code, where the untaken branch may be undefined, e.g. division)."""
    c = cname(e)
    if c == "ExprCond":
        return ev_lazy(e.src1, env, uninterp) if ev_lazy(e.cond, env, uninterp) != 0 else ev_lazy(e.src2, env, uninterp)
    if c == "ExprMem":
        return env.load(ev_lazy(e.arg, env, uninterp), e.size // 8)
    if c == "ExprOp":
        vals = [ev_lazy(a, env, uninterp) for a in e.args]
        ws = [width(a) for a in e.args]
        return apply_op(e.op, vals, ws, ws[0], uninterp)
    if c == "ExprSlice":
        return (ev_lazy(e.arg, env, uninterp) >> e.start) & ((1 << (e.stop - e.start)) - 1)
    if c == "ExprCompose":
        lo = min(x[1] for x in e.args)
        r = 0
        for x, s, t in e.args:
            r |= (ev_lazy(x, env, uninterp) & ((1 << (t - s)) - 1)) << (s - lo)
        return r
    return ev(e, env, uninterp)


# ---- compilation to Python source (memory-free, interpreted operators only) ----
def to_py(e):
    c = cname(e)
    if c == "ExprInt":
        return str(int(e.arg) & ((1 << e.arg.size) - 1))
    if c == "ExprId":
        return "v_%s" % e.name
    if c == "ExprOp":
        w = width(e.args[0])
        m = (1 << w) - 1
        a = [to_py(x) for x in e.args]
        op = e.op
        if op in ASSOC:
            return "((%s)&%d)" % (op.join(a), m)
        if op == "-" and len(a) == 1:
            return "((-%s)&%d)" % (a[0], m)
        if op == "-" and len(a) == 2:
            return "((%s-%s)&%d)" % (a[0], a[1], m)
        ws = [width(x) for x in e.args]
        return "OP(%r,[%s],%r,%d)" % (op, ",".join(a), ws, w)
    if c == "ExprCond":
        return "(%s if %s else %s)" % (to_py(e.src1), to_py(e.cond), to_py(e.src2))
    if c == "ExprSlice":
        return "((%s>>%d)&%d)" % (to_py(e.arg), e.start, (1 << (e.stop - e.start)) - 1)
    if c == "ExprCompose":
        lo = min(x[1] for x in e.args)
        return "(" + "|".join("((%s&%d)<<%d)" % (to_py(x), (1 << (t - s)) - 1, s - lo) for x, s, t in e.args) + ")"
    raise Unsupported("to_py node %s" % c)


def compile_fn(e, names):
    src = "lambda %s: %s" % (",".join("v_" + n for n in names), to_py(e))
    return eval(src, {"OP": lambda op, vals, ws, w: apply_op(op, vals, ws, w)})


# ---- structural helpers shared by several checks --------------------------------
def walk(e, f):
    """pre-order traversal over every sub-expression (including memory addresses and segments)"""
    f(e)
    c = cname(e)
    if c == "ExprMem":
        walk(e.arg, f)
        if e.segm is not None and hasattr(e.segm, "__class__") and cname(e.segm).startswith("Expr"):
            walk(e.segm, f)
    elif c == "ExprOp":
        for a in e.args:
            walk(a, f)
    elif c == "ExprCond":
        walk(e.cond, f); walk(e.src1, f); walk(e.src2, f)
    elif c == "ExprSlice":
        walk(e.arg, f)
    elif c == "ExprCompose":
        for x in e.args:
            walk(x[0], f)
    elif c == "ExprAff":
        walk(e.dst, f); walk(e.src, f)


def ids_of(e):
    out = {}
    def f(x):
        if cname(x) == "ExprId":
            out[x.name] = x.size
    walk(e, f)
    return out


def count_nodes(e):
    n = [0]
    def f(x):
        n[0] += 1
    walk(e, f)
    return n[0]


def selftest():
    assert apply_op("+", [200, 100], [8, 8], 8) == 44
    assert apply_op("-", [1], [8], 8) == 255
    assert apply_op("a>>", [0x80, 1], [8, 8], 8) == 0xC0
    assert apply_op("a>>", [0x80, 9], [8, 8], 8) == 0xFF
    assert apply_op(">>", [0x80, 8], [8, 8], 8) == 0
    assert apply_op("<<<", [0x81, 1], [8, 8], 8) == 0x03
    assert apply_op(">>>", [0x81, 1], [8, 8], 8) == 0xC0
    assert apply_op("parity", [3], [8], 8) == 1 and apply_op("parity", [1], [8], 8) == 0
    assert apply_op("idiv32", [0xFFFFFFFF, 0xFFFFFFF9, 2], [32] * 3, 32) == 0xFFFFFFFD   # -7 / 2 = -3
    assert apply_op("irem32", [0xFFFFFFFF, 0xFFFFFFF9, 2], [32] * 3, 32) == 0xFFFFFFFF   # -7 % 2 = -1
    assert rcl(0x80, 1, 0, 8) == (0, 1) and rcr(1, 1, 0, 8) == (0, 1) and rcr(0, 1, 1, 8) == (0x80, 0)
    assert apply_op("imul32_hi", [0xFFFFFFFF, 2], [32, 32], 32) == 0xFFFFFFFF
    assert apply_op("umul32_hi", [0xFFFFFFFF, 2], [32, 32], 32) == 1
    assert apply_op("bsr", [0x10], [32], 32) == 4 and apply_op("bsf", [0x18], [32], 32) == 3


selftest()
