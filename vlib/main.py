"""Entry point: python -m vlib.main <ID> [--tier quick|thorough] [--replay f] [--triage]

Creates a private scratch directory inside the verif checkout, points TMPDIR at
it *before* miasmx is imported (both PLY parsers write their tables to
tempfile.gettempdir()), then dispatches to checks/<id>_*.py.
Exit codes: 0 held / 1 VIOLATION / 2 harness error (INCONCLUSIVE).
"""
import os
import sys
import glob
import shutil
import traceback
import importlib

HERE = os.path.dirname(os.path.dirname(os.path.abspath(__file__)))


def main():
    if len(sys.argv) < 2:
        print("usage: check <ID> [--tier quick|thorough] [--replay file] [--triage]")
        return 2
    pid = sys.argv[1].upper()
    scratch = os.path.join(HERE, ".scratch", "%s-%d" % (pid, os.getpid()))
    os.makedirs(scratch, exist_ok=True)
    os.environ["TMPDIR"] = scratch
    os.environ["VERIF_SCRATCH"] = scratch
    import tempfile
    tempfile.tempdir = scratch
    import logging
    logging.disable(logging.CRITICAL)      # miasmX logs 'ERROR: b 15' for every undecodable byte
    if "/repo" in sys.path:
        sys.path.remove("/repo")
    sys.path.insert(0, os.environ.get("VERIF_REPO", "/repo"))
    rc = 2
    try:
        mods = glob.glob(os.path.join(HERE, "checks", pid.lower() + "_*.py"))
        if not mods:
            print("INCONCLUSIVE property=%s no such check" % pid)
            return 2
        name = "checks." + os.path.basename(mods[0])[:-3]
        from vlib import runner
        import miasmx
        # ply/yacc.py leaves sys.path == [TMPDIR] when its table file is missing (recorded under C12):
        # import the parsers once here, under a guard, so the rest of the process keeps its import path
        keep = list(sys.path)
        try:
            import miasmx.arch.ia32_arch
            import miasmx.arch.ia32_att
            import miasmx.core.parse_ad      # imported lazily by the first asm() call otherwise
        finally:
            sys.path[:] = keep
        want = os.path.realpath(os.environ.get("VERIF_REPO", "/repo"))
        if not os.path.realpath(miasmx.__file__).startswith(want + os.sep):
            print("INCONCLUSIVE property=%s miasmx imported from %s, not %s" % (pid, miasmx.__file__, want))
            return 2
        run = runner.Run(pid, sys.argv[2:], scratch)
        try:
            mod = importlib.import_module(name)
            if getattr(mod, "MEM_LIMIT", None):
                # checks that feed generated expressions to the simplifier / evaluator: unbounded allocation by the code under test
                # must surface as MemoryError (a classifiable exception), here and in every worker, not as an OOM kill of the machine
                import resource
                resource.setrlimit(resource.RLIMIT_AS, (mod.MEM_LIMIT, mod.MEM_LIMIT))
            if run.replay_path:
                rc = run.do_replay(mod)
            else:
                run.prime(mod)
                mod.main(run)
                rc = run.finish()
        except runner.Inconclusive as e:
            print("INCONCLUSIVE property=%s %s" % (pid, e))
            rc = 2
        except SystemExit:
            raise
        except BaseException:
            traceback.print_exc()
            print("INCONCLUSIVE property=%s harness error (see traceback)" % pid)
            rc = 2
    finally:
        shutil.rmtree(scratch, ignore_errors=True)
    return rc


if __name__ == "__main__":
    sys.exit(main())
