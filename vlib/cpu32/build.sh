#!/bin/sh
# builds .build/cpu32 (static freestanding i386 executable); needs gcc with -m32 code generation only (no 32-bit libc)
HERE="$(cd "$(dirname "$0")/../.." && pwd)"
mkdir -p "$HERE/.build"
gcc -m32 -nostdlib -static -ffreestanding -fno-pic -no-pie -fno-stack-protector -fno-asynchronous-unwind-tables -O1 \
    -o "$HERE/.build/cpu32" "$HERE/vlib/cpu32/cpu32.c" || exit 1
echo "built $HERE/.build/cpu32"
