/* cpu32 - native 32-bit executor (reference R3): runs ONE x86 instruction on the real CPU from a given register /
 * flag / memory state and reports the resulting state.  Freestanding i386 program, raw Linux system calls only.
 *
 * stdin : records  { u32 magic 0x43505533; u32 flags(bit0: load/save FXSAVE image); u32 ncode; u8 code[16]; u32 nstubs; u32 stubs[8];
 *                    u32 regs[8] (eax ecx edx ebx esp ebp esi edi); u32 eflags; u8 data[1024]; [u8 fx[512]] }
 * stdout: records  { u32 regs[8]; u32 eflags; u32 marker; u8 data[1024]; [u8 fx[512]] }
 * The instruction is placed at CODE+0x800 in a page filled with int3; an exit stub is written at every address in stubs[]
 * (fall-through and branch targets): it stores its own address into `marker` and jumps back.  A fault (SIGSEGV, SIGILL,
 * SIGTRAP, SIGFPE, SIGBUS, or SIGVTALRM after 200 ms of CPU time) sets marker = 0xFFFF0000 | signal.
 * flags bit1: the instruction runs at LOW+0x800 (0x8800) instead of CODE+0x800 and stubs[] must lie in the LOW page; if that page cannot be
 * mapped (vm.mmap_min_addr) such a record reports marker = 0xFFFF00FF.
 * data[] is the window DATA+0x600 .. DATA+0xA00 of the data page (the rest of the page is zero).
 */
typedef unsigned int u32;
typedef unsigned char u8;

#define CODE 0x20000000u
#define COMM 0x28000000u
#define DATA 0x30000000u
#define ALT  0x38000000u
#define LOW  0x00008000u   /* second code page below 64 KiB: a 66-prefixed near branch truncates EIP to 16 bits, which stays inside this page */
#define WIN_OFF 0x600
#define WIN_LEN 1024

static inline int sys3(int nr, u32 a, u32 b, u32 c) {
    int r;
    __asm__ volatile("int $0x80" : "=a"(r) : "0"(nr), "b"(a), "c"(b), "d"(c) : "memory");
    return r;
}
static inline int sys4(int nr, u32 a, u32 b, u32 c, u32 d) {
    int r;
    __asm__ volatile("int $0x80" : "=a"(r) : "0"(nr), "b"(a), "c"(b), "d"(c), "S"(d) : "memory");
    return r;
}
static u32 do_mmap(u32 addr, u32 len, u32 prot) {
    /* mmap2(addr, len, prot, MAP_PRIVATE|MAP_FIXED|MAP_ANONYMOUS, -1, 0) */
    int r;
    __asm__ volatile("push %%ebp; mov $0, %%ebp; int $0x80; pop %%ebp"
        : "=a"(r) : "0"(192), "b"(addr), "c"(len), "d"(prot), "S"(0x32), "D"(-1) : "memory");
    return (u32)r;
}
static void readn(u8 *p, u32 n) {
    while (n) {
        int r = sys3(3, 0, (u32)p, n);
        if (r <= 0) sys3(1, 0, 0, 0);      /* EOF: exit(0) */
        p += r; n -= r;
    }
}
static void writen(const u8 *p, u32 n) {
    while (n) {
        int r = sys3(4, 1, (u32)p, n);
        if (r <= 0) sys3(1, 3, 0, 0);
        p += r; n -= r;
    }
}
static void copy(u8 *d, const u8 *s, u32 n) { while (n--) *d++ = *s++; }
static void fill(u8 *d, u8 v, u32 n) { while (n--) *d++ = v; }

void run_case(void);
void fault_handler(int);

__asm__(
".text\n"
".globl run_case\n"
"run_case:\n"
"    pusha\n"
"    pushf\n"
"    mov %esp, 0x28000000\n"
"    movl $exit_lbl, 0x28000004\n"
"    cmpl $0, 0x28000058\n"
"    je 1f\n"
"    fxrstor 0x28000200\n"
"1:\n"
"    pushl 0x2800000c\n"
"    popf\n"
"    mov 0x28000010, %eax\n"
"    mov 0x28000014, %ecx\n"
"    mov 0x28000018, %edx\n"
"    mov 0x2800001c, %ebx\n"
"    mov 0x28000024, %ebp\n"
"    mov 0x28000028, %esi\n"
"    mov 0x2800002c, %edi\n"
"    mov 0x28000020, %esp\n"
"    jmp *0x28000008\n"
".globl exit_lbl\n"
"exit_lbl:\n"
"    mov %eax, 0x28000030\n"
"    mov %ecx, 0x28000034\n"
"    mov %edx, 0x28000038\n"
"    mov %ebx, 0x2800003c\n"
"    mov %esp, 0x28000040\n"
"    mov %ebp, 0x28000044\n"
"    mov %esi, 0x28000048\n"
"    mov %edi, 0x2800004c\n"
"    mov 0x28000000, %esp\n"
"    pushf\n"
"    popl 0x28000050\n"
"    cmpl $0, 0x28000058\n"
"    je 2f\n"
"    fxsave 0x28000400\n"
"2:\n"
"    popf\n"
"    popa\n"
"    ret\n"
".globl fault_handler\n"
"fault_handler:\n"
"    mov 4(%esp), %eax\n"
"    or $0xFFFF0000, %eax\n"
"    mov %eax, 0x28000054\n"
"    jmp exit_lbl\n"
);

struct ksigaction { void *handler; unsigned long flags; void *restorer; unsigned long mask[2]; };
struct kstack { void *sp; int flags; u32 size; };

void _start(void) {
    static u8 rec[8 + 4 + 16 + 4 + 32 + 32 + 4 + WIN_LEN + 512];
    static u8 out[32 + 4 + 4 + WIN_LEN + 512];
    if (do_mmap(CODE, 4096, 7) != CODE || do_mmap(COMM, 8192, 3) != COMM || do_mmap(DATA, 4096, 3) != DATA || do_mmap(ALT, 65536, 3) != ALT)
        sys3(1, 2, 0, 0);
    int low_ok = do_mmap(LOW, 4096, 7) == LOW;
    struct kstack ss; ss.sp = (void *)ALT; ss.flags = 0; ss.size = 65536;
    sys3(186, (u32)&ss, 0, 0);
    struct ksigaction sa; sa.handler = (void *)fault_handler; sa.flags = 0x08000000u | 0x40000000u; sa.restorer = 0; sa.mask[0] = 0; sa.mask[1] = 0;
    int sigs[] = {4, 5, 7, 8, 11, 14, 26};
    for (int i = 0; i < 7; i++) sys4(174, sigs[i], (u32)&sa, 0, 8);
    static struct { long a, b, c, d; } it_on = {0, 0, 0, 200000}, it_off = {0, 0, 0, 0};   /* it_interval, it_value (200 ms) */
    volatile u32 *comm = (volatile u32 *)COMM;
    for (;;) {
        readn(rec, 12);
        u32 magic = *(u32 *)rec, flags = *(u32 *)(rec + 4), ncode = *(u32 *)(rec + 8);
        if (magic != 0x43505533u || ncode > 16) sys3(1, 4, 0, 0);
        u32 rest = 16 + 4 + 32 + 32 + 4 + WIN_LEN + ((flags & 1) ? 512 : 0);
        readn(rec + 12, rest);
        u8 *code = rec + 12;
        u32 nstubs = *(u32 *)(rec + 28);
        u32 *stubs = (u32 *)(rec + 32);
        u32 *regs = (u32 *)(rec + 64);
        u32 eflags = *(u32 *)(rec + 96);
        u8 *data = rec + 100;
        u8 *fx = rec + 100 + WIN_LEN;
        u32 base = (flags & 2) ? LOW : CODE;
        if ((flags & 2) && !low_ok) {
            fill(out, 0, 40 + WIN_LEN + 512);
            ((u32 *)out)[9] = 0xFFFF00FFu;
            writen(out, 40 + WIN_LEN + ((flags & 1) ? 512 : 0));
            continue;
        }
        fill((u8 *)base, 0xCC, 4096);
        copy((u8 *)(base + 0x800), code, ncode);
        if (nstubs > 8) nstubs = 8;
        for (u32 i = 0; i < nstubs; i++) {
            u32 a = stubs[i];
            if (a < base || a > base + 4096 - 16) continue;
            u8 *p = (u8 *)a;
            p[0] = 0xC7; p[1] = 0x05; *(u32 *)(p + 2) = COMM + 0x54; *(u32 *)(p + 6) = a;
            p[10] = 0xFF; p[11] = 0x25; *(u32 *)(p + 12) = COMM + 4;
        }
        fill((u8 *)DATA, 0, 4096);
        copy((u8 *)(DATA + WIN_OFF), data, WIN_LEN);
        comm[2] = base + 0x800;
        comm[3] = eflags;
        for (int i = 0; i < 8; i++) comm[4 + i] = regs[i];
        comm[0x54 / 4] = 0;
        comm[0x58 / 4] = flags & 1;
        if (flags & 1) copy((u8 *)(COMM + 0x200), fx, 512);
        sys3(104, 1, (u32)&it_on, 0);       /* setitimer(ITIMER_VIRTUAL): a test instruction that spins for 200 ms of its own CPU time is stopped by SIGVTALRM (26); machine load cannot trigger it */
        run_case();
        sys3(104, 1, (u32)&it_off, 0);
        for (int i = 0; i < 8; i++) ((u32 *)out)[i] = comm[12 + i];
        ((u32 *)out)[8] = comm[0x50 / 4];
        ((u32 *)out)[9] = comm[0x54 / 4];
        copy(out + 40, (u8 *)(DATA + WIN_OFF), WIN_LEN);
        u32 n = 40 + WIN_LEN;
        if (flags & 1) { copy(out + n, (u8 *)(COMM + 0x400), 512); n += 512; }
        writen(out, n);
    }
}
