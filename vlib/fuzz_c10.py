"""Coverage-guided campaign for C10 (atheris / libFuzzer), run as a child process of checks/c10_total.py:

    python -m vlib.fuzz_c10 <target> <runs> <seed> <outdir> <known.json> <corpus: empty|seeded>

targets
    dis    raw bytes -> a 16-byte window (input padded with the non-repeating fill pattern) -> checks.c10_total.check_decoder:
           the whole decoder oracle (no exception of any type from dis() and the four renderings, every truncation rejected,
           three junk tails, stream offsets 1..3) runs inside the target
    toks   bytes -> (syntax, separator, <= 10 tokens of the lexical alphabet) through a data provider -> check_asm
    text   bytes -> printable ASCII line (<= 64 characters) -> check_asm for the syntax chosen by the first byte

miasmx is imported under atheris.instrument_imports(), so libFuzzer sees edge coverage of the decoder tables walk, the
grammar actions and asm_candidates / forge_opc (not of the C regular-expression lexer).  A failure whose signature is listed in
known.json is counted and skipped *inside* the target, a new signature is written to <outdir>/failures.jsonl with its input and
added to the in-run seen set, and the campaign goes on (libFuzzer would stop at the first crash and hide what lies behind it).
<outdir>/stats.json is rewritten every 500 executions and at the last one.  atexit handlers do not run under atheris.
"""
import os
import sys
import json


def main():
    target, runs, seed, outdir, known_path, corpus_kind = sys.argv[1:7]
    runs, seed = int(runs), int(seed)
    os.makedirs(outdir, exist_ok=True)
    corpus = os.path.join(outdir, "corpus")
    os.makedirs(corpus, exist_ok=True)
    import logging
    logging.disable(logging.CRITICAL)      # miasmX logs an error line for every undecodable byte
    import atheris
    with atheris.instrument_imports(include=["miasmx"], enable_loader_override=False):
        import miasmx.arch.ia32_arch       # noqa: F401
        import miasmx.arch.ia32_att        # noqa: F401
        import miasmx.core.parse_ad        # noqa: F401
    from vlib import runner, x86space
    from checks import c10_total as c10
    with open(known_path) as f:
        known = set(runner.norm_sig(s) for s in json.load(f))
    st_ = runner.Stats()
    seen = set()
    state = {"n": 0, "known": 0, "new": 0}
    devnull = open(os.devnull, "w")
    fails = open(os.path.join(outdir, "failures.jsonl"), "w")
    PAT = x86space.PATTERN
    vocab = c10.vocabulary()
    alphabet = [vocab, c10.REGS, [r.upper() for r in c10.REGS], ["%" + r for r in c10.REGS[:30]], c10.KEYWORDS, c10.PUNCT, c10.NUMS,
                ["$" + n for n in c10.NUMS[:12]], c10.IDENTS, [",", "[", "]", "(", ")", "+", "*", ":"]]
    seps = [" ", " ", "", "\t", ", "]

    def dump_stats(final=False):
        with open(os.path.join(outdir, "stats.json.tmp"), "w") as f:
            json.dump({"executions": state["n"], "known_hits": state["known"], "new_signatures": state["new"], "final": final,
                       "classes": dict(st_.classes), "corpus_files": len(os.listdir(corpus)),
                       "samples": st_.samples[:6], "nontrivial": sorted(st_.nontrivial) if final else []}, f)
        os.replace(os.path.join(outdir, "stats.json.tmp"), os.path.join(outdir, "stats.json"))

    def judge(results):
        for sig, det, case in results:
            sig = runner.norm_sig(sig)
            if sig in known:
                state["known"] += 1
            elif sig not in seen:
                seen.add(sig)
                state["new"] += 1
                fails.write(json.dumps({"sig": list(sig), "detail": " ".join(str(det).split())[:600], "case": runner.jsonable(case)}) + "\n")
                fails.flush()

    def one_dis(data):
        b = (bytes(data) + PAT)[:16]
        judge(c10.check_decoder(b, st_))

    def one_toks(data):
        fdp = atheris.FuzzedDataProvider(data)
        att = fdp.ConsumeBool()
        sep = seps[fdp.ConsumeIntInRange(0, len(seps) - 1)]
        n = fdp.ConsumeIntInRange(0, 10)
        toks = []
        for _ in range(n):
            cat = alphabet[fdp.ConsumeIntInRange(0, len(alphabet) - 1)]
            toks.append(cat[fdp.ConsumeIntInRange(0, len(cat) - 1)])
        line = sep.join(toks) if sep != "" else " ".join(toks[:1]) + " " + "".join(toks[1:])
        judge(c10.check_asm(att, line, st_))
        st_.nt(("a", att, line))
        if len(line) > 10:
            st_.sample({"asm_att" if att else "asm": line})

    def one_text(data):
        if not data:
            return
        att = bool(data[0] & 1)
        line = "".join(chr(c) if 32 <= c < 127 else ("\t" if c == 9 else " ") for c in data[1:65])
        judge(c10.check_asm(att, line, st_))
        st_.nt(("a", att, line))
        if len(line) > 10:
            st_.sample({"asm_att" if att else "asm": line})

    fn = {"dis": one_dis, "toks": one_toks, "text": one_text}[target]

    def test_one(data):
        state["n"] += 1
        old = sys.stdout
        sys.stdout = devnull          # miasmX prints diagnostics on stdout
        try:
            fn(data)
        finally:
            sys.stdout = old
        if state["n"] % 500 == 0 or state["n"] >= runs:
            dump_stats(final=state["n"] >= runs)

    if corpus_kind == "seeded":
        if target == "dis":
            cs = sorted(set(x86space.cases("quick", 1, thin=997)))[:64]
            for k, b in enumerate(cs):
                with open(os.path.join(corpus, "seed-%03d" % k), "wb") as f:
                    f.write(bytes(b))
        elif target == "text":
            for k, l in enumerate(["mov eax, DWORD PTR [ebp+12]", "add DWORD PTR [ebp-4], 66", "fadd st, st(1)", "lea eax, -8+a[ebx]", "jmp 2",
                                   "movl %eax, 32(%esi)", "fdivl 32(%esi)", "pslldq $4, %xmm3", "movaps XMMWORD PTR [ebx+148], xmm1", "push dword ptr gs:20",
                                   "mov eax, OFFSET FLAT:.LC0-.LC1", "rep movsd", "shld edi, ebp, 1", "jmp *%eax", "nop WORD PTR cs:[eax+eax]"]):
                with open(os.path.join(corpus, "seed-%03d" % k), "wb") as f:
                    f.write(bytes([k & 1 if "%" not in l else 1]) + l.encode())
    dump_stats()
    argv = [sys.argv[0], corpus, "-runs=%d" % runs, "-seed=%d" % (seed or 1), "-max_len=%d" % {"dis": 16, "toks": 48, "text": 65}[target],
            "-timeout=120", "-rss_limit_mb=6000", "-print_final_stats=1", "-verbosity=0", "-report_slow_units=1000000",
            "-artifact_prefix=%s" % os.path.join(os.path.dirname(os.path.abspath(corpus)), "artifact-")]
    atheris.Setup(argv, test_one)
    atheris.Fuzz()


if __name__ == "__main__":
    main()
