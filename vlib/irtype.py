"""R5 - independent well-formedness checker for lifted IR (property C11).

check_list(exprs) -> list of (kind, detail) problems; empty when the assignment list is well-formed:
  * every element is an ExprAff whose destination is an ExprId or ExprMem and whose source holds no ExprAff
  * every sub-expression has a determinate positive width; the operands of + - * & | ^ == (and the branches of a
    conditional) have equal widths; shift / rotate counts may be narrower
  * slices lie inside their operand; Compose slots start at 0 and tile the result without gap or overlap
  * width(src) == width(dst), except that a 1-bit destination may receive a wider source whose value is always 0/1
    (refuted by evaluation on sampled valuations; undecidable when an uninterpreted operator is involved)
  * no two assignments write the same identifier or overlapping memory (same base expression, overlapping bytes)
"""
from vlib import irsem

SAMEW = set(["+", "-", "*", "&", "|", "^", "=="])
COUNT_OPS = set(["<<", ">>", "a>>", "<<<", ">>>", "a<<"])


class Bad(Exception):
    def __init__(self, kind, detail):
        Exception.__init__(self, detail)
        self.kind, self.detail = kind, detail


def width(e):
    c = irsem.cname(e)
    if c == "ExprInt":
        w = e.arg.size
    elif c == "ExprId":
        w = e.size
    elif c == "ExprMem":
        aw = width(e.arg)
        if aw not in (16, 32):
            raise Bad("address-width", "memory address %s has width %r" % (e.arg, aw))
        w = e.size
        if not isinstance(w, int) or w <= 0 or w % 8:
            raise Bad("mem-size", "memory cell %s has size %r" % (e, w))
    elif c == "ExprOp":
        if not e.args:
            raise Bad("op-arity", "operator %s without operand" % e.op)
        ws = [width(a) for a in e.args]
        if e.op in SAMEW and len(set(ws)) != 1:
            raise Bad("operand-widths:%s" % e.op, "%s mixes widths %s" % (e, ws))
        w = ws[0]
    elif c == "ExprCond":
        width(e.cond)
        a, b = width(e.src1), width(e.src2)
        if a != b:
            raise Bad("cond-branch-widths", "%s has branches of width %d and %d" % (e, a, b))
        w = a
    elif c == "ExprSlice":
        aw = width(e.arg)
        if not (isinstance(e.start, int) and isinstance(e.stop, int)):
            raise Bad("slice-bounds-type", "%s has bounds %r:%r" % (e.arg, e.start, e.stop))
        if not (0 <= e.start < e.stop <= aw):
            raise Bad("slice-bounds", "slice [%r:%r] of %s (width %d)" % (e.start, e.stop, e.arg, aw))
        w = e.stop - e.start
    elif c == "ExprCompose":
        pos = 0
        for x, s, t in e.args:
            if not (isinstance(s, int) and isinstance(t, int)):
                raise Bad("compose-bounds-type", "%s has slot %r:%r" % (e, s, t))
        # the slots may be listed in any order; together they must tile [0, width)
        for x, s, t in sorted(e.args, key=lambda a: a[1]):
            xw = width(x)
            if s != pos or t <= s:
                raise Bad("compose-tiling", "%s: slot %d:%d after position %d" % (e, s, t, pos))
            if xw < t - s:
                raise Bad("compose-element-narrow", "%s: element %s of width %d in slot %d:%d" % (e, x, xw, s, t))
            pos = t
        w = pos
    elif c == "ExprAff":
        raise Bad("nested-assignment", "assignment %s inside an expression" % e)
    else:
        raise Bad("node-kind", "unexpected node %s" % c)
    if not isinstance(w, int) or w <= 0:
        raise Bad("width", "%s has width %r" % (e, w))
    return w


def has_uninterpreted(e):
    found = [False]
    def f(x):
        if irsem.cname(x) == "ExprOp" and not irsem.is_interpreted(x.op, len(x.args)):
            found[0] = True
    irsem.walk(e, f)
    return found[0]


def refute_01(e, n=24):
    """a valuation under which e is not 0/1, or None"""
    from vlib import exprgen
    ids = irsem.ids_of(e)
    for v, ms in exprgen.fixed_valuations(ids, n, 17):
        try:
            val = irsem.ev_lazy(e, irsem.Env(v, ms))
        except (irsem.Undefined, ZeroDivisionError):
            continue
        if val not in (0, 1):
            return v, val
    return None


def base_off(a):
    """address -> (base key, constant offset)"""
    if irsem.cname(a) == "ExprInt":
        return "", int(a.arg) & 0xFFFFFFFF
    if irsem.cname(a) == "ExprOp" and a.op == "+":
        rest, off = [], 0
        for x in a.args:
            if irsem.cname(x) == "ExprInt":
                off += int(x.arg)
            else:
                rest.append(str(x))
        return "+".join(sorted(rest)), off & 0xFFFFFFFF
    return str(a), 0


def check_list(exprs, stats=None):
    out = []
    written_ids = {}
    written_mem = []
    if not isinstance(exprs, (list, tuple)):
        return [("result-type", "lifting returned %r" % (type(exprs).__name__,))]
    for e in exprs:
        if irsem.cname(e) != "ExprAff":
            out.append(("element-kind", "element %s is a %s, not an assignment" % (e, irsem.cname(e))))
            continue
        d, s = e.dst, e.src
        dc = irsem.cname(d)
        if dc not in ("ExprId", "ExprMem"):
            out.append(("destination-kind", "destination %s is a %s" % (d, dc)))
            continue
        try:
            dw = width(d)
            sw = width(s)
        except Bad as b:
            out.append((b.kind, "%s: %s" % (e, b.detail)))
            continue
        except Exception as ex:
            out.append(("checker-raise:%s" % type(ex).__name__, "%s: %s" % (e, ex)))
            continue
        if dw != sw:
            if dw == 1 and sw > 1:
                if has_uninterpreted(s):
                    if stats is not None:
                        stats.klass("flag_from_uninterpreted_operator(undecided)")
                else:
                    r = refute_01(s)
                    if r is not None:
                        out.append(("flag-source-not-01:%s" % getattr(d, "name", "mem"), "%s: source has value 0x%x under %s" % (e, r[1], r[0])))
            else:
                out.append(("src-dst-width:%s:%d<-%d" % (getattr(d, "name", "mem"), dw, sw), "%s: destination width %d, source width %d" % (e, dw, sw)))
        if dc == "ExprId":
            if d.name in written_ids:
                out.append(("double-write:%s" % d.name, "%s is assigned twice (%s and %s)" % (d.name, written_ids[d.name], s)))
            written_ids[d.name] = s
        else:
            b, o = base_off(d.arg)
            n = d.size // 8
            for b2, o2, n2, d2 in written_mem:
                if b2 == b and ((o - o2) % (1 << 32) < n2 or (o2 - o) % (1 << 32) < n):
                    out.append(("double-write-memory", "%s and %s overlap" % (d, d2)))
            written_mem.append((b, o, n, d))
    return out
