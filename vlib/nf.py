"""NF - notation-level normal form of Intel-syntax instruction text.

One tolerant parser for the Intel text of objdump, llvm-objdump and miasmX.  Notation differences are removed
here and only here: number base, '0x', white space, term order inside brackets, 'eiz', 'st' vs 'st(0)',
absolute targets vs displacements of relative branches, and a fixed synonym table for mnemonics that name the
same opcode.

    parse(text, addr=None, length=None) -> Insn or None
    diff(a, b, ...) -> None or the name of the first differing field
"""
import re

REG8 = ["al", "cl", "dl", "bl", "ah", "ch", "dh", "bh"]
REG16 = ["ax", "cx", "dx", "bx", "sp", "bp", "si", "di"]
REG32 = ["eax", "ecx", "edx", "ebx", "esp", "ebp", "esi", "edi"]
SEGS = ["es", "cs", "ss", "ds", "fs", "gs"]
REGS = set(REG8 + REG16 + REG32 + SEGS + ["cr%d" % i for i in range(16)] + ["dr%d" % i for i in range(16)] + ["db%d" % i for i in range(16)] +
           ["tr%d" % i for i in range(8)] + ["mm%d" % i for i in range(8)] + ["xmm%d" % i for i in range(8)] + ["st%d" % i for i in range(8)] +
           ["eiz", "ymm0"])
REGW = {}
for r in REG8: REGW[r] = 8
for r in REG16 + SEGS: REGW[r] = 16
for r in REG32: REGW[r] = 32
SIZES = {"byte": 8, "word": 16, "dword": 32, "fword": 48, "qword": 64, "tbyte": 80, "xword": 80, "xmmword": 128, "oword": 128,
         "ymmword": 256, "mmword": 64, "zmmword": 512}
PREFIX_WORDS = set(["lock", "rep", "repz", "repe", "repnz", "repne", "notrack", "bnd", "data16", "data32", "addr16", "addr32",
                    "xacquire", "xrelease", "cs", "ds", "es", "fs", "gs", "ss", "[0xf2]", "[0xf3]", "rex", "wait"])
CC = {"o": "o", "no": "no", "b": "b", "c": "b", "nae": "b", "ae": "ae", "nb": "ae", "nc": "ae", "e": "e", "z": "e", "ne": "ne", "nz": "ne",
      "be": "be", "na": "be", "a": "a", "nbe": "a", "s": "s", "ns": "ns", "p": "p", "pe": "p", "np": "np", "po": "np",
      "l": "l", "nge": "l", "ge": "ge", "nl": "ge", "le": "le", "ng": "le", "g": "g", "nle": "g"}
FCC = {"b": "b", "e": "e", "be": "be", "u": "u", "nb": "nb", "ne": "ne", "nbe": "nbe", "nu": "nu"}
SYN = {
    "sal": "shl", "wait": "fwait", "pushfd": "pushf", "popfd": "popf", "pushfw": "pushf", "popfw": "popf",
    "pushad": "pusha", "popad": "popa", "pushal": "pusha", "popal": "popa",
    "int3": "int3", "retf": "lret", "retfw": "lret", "lretw": "lret", "retw": "ret", "iretd": "iret", "iretw": "iret",
    "jmpf": "ljmp", "callf": "lcall", "jcxz": "jecxz", "xlatb": "xlat", "icebp": "int1", "ud2a": "ud2", "ud2b": "ud1",
    "loopz": "loope", "loopnz": "loopne", "loopw": "loop", "loopl": "loop", "fdisi": "fndisi", "feni": "fneni",
    "cmova": "cmova", "pushw": "push", "popw": "pop", "cdq": "cdq", "cwd": "cwd", "cwde": "cwde", "cbw": "cbw",
    "sysexitl": "sysexit", "sysretl": "sysret", "fxsavel": "fxsave", "leavew": "leave", "enterw": "enter",
    "pushaw": "pushaw", "popaw": "popaw", "sgdtd": "sgdt", "sgdtw": "sgdt", "sidtd": "sidt", "sidtw": "sidt",
    "lgdtd": "lgdt", "lgdtw": "lgdt", "lidtd": "lidt", "lidtw": "lidt",
    "jmpw": "jmp", "callw": "call", "ljmpw": "ljmp", "lcallw": "lcall", "loopew": "loope", "loopnew": "loopne", "loopel": "loope", "loopnel": "loopne", "prefetchwt1": "prefetchwt1", "movabs": "mov",
}
STRING = {"movs": "movs", "cmps": "cmps", "scas": "scas", "lods": "lods", "stos": "stos", "ins": "ins", "outs": "outs"}
BRANCH = set(["jmp", "call", "loop", "loope", "loopne", "jecxz", "xbegin"] + ["j" + c for c in set(CC.values())])


class Insn(object):
    __slots__ = ("prefixes", "mn", "ops", "raw", "extra")

    def __init__(self, prefixes, mn, ops, raw, extra=None):
        self.prefixes, self.mn, self.ops, self.raw, self.extra = prefixes, mn, ops, raw, extra or []

    def __repr__(self):
        return "<%s %s %s>" % (sorted(self.prefixes), self.mn, self.ops)


def canon_mn(m):
    m = SYN.get(m, m)
    for pre in ("j", "set", "cmov"):
        if m.startswith(pre) and m[len(pre):] in CC and m not in ("jmp",):
            return pre + CC[m[len(pre):]]
    if m.startswith("fcmov") and m[5:] in FCC:
        return "fcmov" + FCC[m[5:]]
    return m


def num(t):
    t = t.strip()
    neg = False
    if t.startswith("-"):
        neg, t = True, t[1:].strip()
    elif t.startswith("+"):
        t = t[1:].strip()
    if re.match(r"^0x[0-9a-f]+$", t):
        v = int(t, 16)
    elif re.match(r"^[0-9a-f]+h$", t):
        v = int(t[:-1], 16)
    elif re.match(r"^[0-9]+$", t):
        v = int(t, 10)
    else:
        return None
    return -v if neg else v


def split_ops(s):
    out, depth, cur = [], 0, ""
    for ch in s:
        if ch in "[(":
            depth += 1
        elif ch in "])":
            depth -= 1
        if ch == "," and depth == 0:
            out.append(cur)
            cur = ""
        else:
            cur += ch
    if cur.strip():
        out.append(cur)
    return [o.strip() for o in out]


def parse_reg(t):
    t = t.strip()
    if t in ("st", "st(0)", "st0"):
        return "st0"
    m = re.match(r"^st\(?([0-7])\)?$", t)
    if m:
        return "st" + m.group(1)
    if t in REGS:
        return t
    return None


def parse_terms(body):
    """'ebx+ecx*4+0x10' -> (frozenset((reg, scale)), disp) or None"""
    body = body.replace(" ", "")
    if not body:
        return None
    terms = re.findall(r"[+-]?[^+-]+", body)
    regs = {}
    base = None      # the first register written without a scale: both references and miasmX print the base before the index
    disp = 0
    for t in terms:
        sign = -1 if t.startswith("-") else 1
        t = t.lstrip("+-")
        if "*" in t:
            a, b = t.split("*", 1)
            if parse_reg(a) and num(b) is not None:
                r, sc = parse_reg(a), num(b)
            elif parse_reg(b) and num(a) is not None:
                r, sc = parse_reg(b), num(a)
            else:
                return None
            regs[r] = regs.get(r, 0) + sign * sc
        elif parse_reg(t):
            regs[parse_reg(t)] = regs.get(parse_reg(t), 0) + sign
            if base is None:
                base = parse_reg(t)
        else:
            v = num(t)
            if v is None:
                return None
            disp += sign * v
    regs.pop("eiz", None)
    # the default segment is ss when the *base* is ebp / esp (32-bit shapes) or when bp takes part (16-bit shapes); the sum of the
    # terms alone cannot tell [ebp+eax] from [eax+ebp], nor [ebp+ebp*1] from [ebp*2]: the fact is kept as a marker of its own
    if base in ("ebp", "esp") or "bp" in regs:
        regs["@stack-base"] = 1
    return frozenset((r, s) for r, s in regs.items() if s), disp


def parse_operand(t):
    t = t.strip()
    t = re.sub(r"<[^>]*>", "", t).strip()
    size = None
    m = re.match(r"^([a-z]+)\s+ptr\s*(.*)$", t)
    if m and m.group(1) in SIZES:
        size, t = SIZES[m.group(1)], m.group(2).strip()
    seg = None
    m = re.match(r"^(es|cs|ss|ds|fs|gs)\s*:\s*(.*)$", t)
    if m and not re.match(r"^(0x)?[0-9a-f]+\s*$", m.group(0).split(":")[0]):
        # could be 'ds:0x1234', 'es:[edi]'; a far pointer is number:number and handled below
        seg, rest = m.group(1), m.group(2).strip()
        if rest.startswith("["):
            t = rest
        else:
            v = num(rest)
            if v is not None:
                return ("mem", size, seg, frozenset(), v)
            pt = parse_terms(rest)
            if pt is not None:
                return ("mem", size, seg, pt[0], pt[1])
            return ("unk", t)
    m = re.match(r"^(-?(?:0x)?[0-9a-f]+)\s*:\s*(-?(?:0x)?[0-9a-f]+)$", t)
    if m and num(m.group(1)) is not None and num(m.group(2)) is not None:
        return ("far", num(m.group(1)), num(m.group(2)))
    m = re.match(r"^\[\s*([a-z]+)\s+ptr\s+(.*)\]$", t)
    if m and m.group(1) in SIZES and size is None:
        # miasmX's notation for an indirect transfer through an absolute address: [DWORD PTR cs:1234]
        inner = parse_operand("%s ptr %s" % (m.group(1), m.group(2)))
        if inner[0] == "mem":
            return inner
    if t.startswith("[") and t.endswith("]"):
        pt = parse_terms(t[1:-1])
        if pt is None:
            return ("unk", t)
        return ("mem", size, seg, pt[0], pt[1])
    m = re.match(r"^(-?(?:0x)?[0-9a-f]+)\s*\[(.*)\]$", t)     # disp[reg] form
    if m and num(m.group(1)) is not None:
        pt = parse_terms(m.group(2))
        if pt is not None:
            return ("mem", size, seg, pt[0], pt[1] + num(m.group(1)))
    r = parse_reg(t)
    if r and size is None:
        return ("reg", r)
    v = num(t)
    if v is not None:
        if size is not None or seg is not None:
            return ("mem", size, seg, frozenset(), v)
        return ("imm", v)
    if size is not None:
        pt = parse_terms(t)
        if pt is not None and r is None:
            return ("mem", size, seg, pt[0], pt[1])
    return ("unk", t)


def parse(text, addr=None, length=None):
    if text is None:
        return None
    raw = text
    t = text.lower().replace("\t", " ")
    t = re.sub(r"#.*$", "", t)
    t = re.sub(r"<[^>]*>", "", t).strip()
    if not t or "(bad)" in t or "<unknown>" in raw or t.startswith("."):
        return None
    words = t.split()
    prefixes = []
    while len(words) > 1 and words[0] in PREFIX_WORDS:
        prefixes.append(words.pop(0))
    if not words:
        return None
    if words[0] in PREFIX_WORDS and len(words) == 1 and words[0] not in ("wait",):
        return Insn(set(prefixes + [words[0]]), "", [], raw)
    mn = words[0]
    rest = " ".join(words[1:])
    ops = [parse_operand(o) for o in split_ops(rest)] if rest.strip() else []
    extra = []
    mn = canon_mn(mn)
    # string instructions: fold the explicit operands into a size suffix (+ source segment override)
    base = None
    for k in STRING:
        if mn == k or (mn.startswith(k) and mn[len(k):] in ("b", "w", "d", "l")):
            base = k
    if base and mn in ("movsd", "cmpsd") and any(o[0] == "reg" and o[1].startswith("xmm") for o in ops):
        base = None          # the SSE2 scalar-double instructions of the same name
    if base:
        suffix = mn[len(base):] if base else ""
        if suffix == "l":
            suffix = "d"
        if not suffix:
            w = None
            for o in ops:
                if o[0] == "mem" and o[1]:
                    w = o[1]
                elif o[0] == "reg" and o[1] in REGW and o[1] != "dx":
                    w = REGW[o[1]]
            suffix = {8: "b", 16: "w", 32: "d"}.get(w, "")
        segover = None
        a16 = False
        for o in ops:
            if o[0] == "mem":
                regs = [r for r, s in o[3]]
                if any(r in ("si", "di") for r in regs):
                    a16 = True
                if any(r in ("esi", "si") for r in regs) and o[2] not in (None, "ds"):
                    segover = o[2]
        mn = base + suffix
        ops = []
        if segover:
            extra.append("seg:" + segover)
        if a16:
            extra.append("a16")
    if mn == "xlat":
        ops = []
    if mn == "int3":
        mn, ops = "int", [("imm", 3)]
    m = re.match(r"^cmp(eq|lt|le|unord|neq|nlt|nle|ord)(ps|pd|ss|sd)$", mn)
    if m:
        # pseudo-ops of CMPPS/CMPPD/CMPSS/CMPSD with the predicate folded into the mnemonic
        mn = "cmp" + m.group(2)
        ops = ops + [("imm", ["eq", "lt", "le", "unord", "neq", "nlt", "nle", "ord"].index(m.group(1)))]
    # indirect far transfers: objdump writes 'call FWORD PTR [..]', LLVM 'call [..]' without a size
    if mn in ("call", "jmp") and len(ops) == 1 and ops[0][0] == "mem" and ops[0][1] == 48:
        mn = "l" + mn
    # relative branches: the references print the absolute target of the slot
    if mn in BRANCH and len(ops) == 1 and ops[0][0] == "imm" and addr is not None and length is not None:
        ops = [("rel", (ops[0][1] - (addr + length)) & 0xFFFFFFFF)]
    elif mn in BRANCH and len(ops) == 1 and ops[0][0] == "imm":
        ops = [("rel", ops[0][1] & 0xFFFFFFFF)]
    return Insn(set(prefixes), mn, ops, raw, extra)


def is_string_mem(o):
    regs = [r for r, s in o[3]]
    return len(regs) == 1 and regs[0] in ("esi", "edi", "si", "di") and o[4] == 0


def plain_regs(rs):
    """register/scale pairs without the default-segment marker"""
    return frozenset(p for p in rs if not p[0].startswith("@"))


def eff_seg(o):
    if o[2]:
        return o[2]
    return "ss" if ("@stack-base", 1) in o[3] else "ds"


def width_hint(ins):
    w = None
    for o in ins.ops:
        if o[0] == "reg" and o[1] in REGW and o[1] not in SEGS:
            w = max(w or 0, REGW[o[1]]) if False else (w or REGW[o[1]])
        elif o[0] == "mem" and o[1]:
            w = w or o[1]
    return w


SYMMETRIC = set(["xchg", "test"])
SUPERFLUOUS = set(["data16", "data32", "addr16", "addr32", "bnd", "xacquire", "xrelease", "cs", "ds", "es", "fs", "gs", "ss", "rex", "notrack"])


def superfluous(ref):
    """does the reference text carry a prefix token that has no effect on the instruction?"""
    if ref is None:
        return False
    if ref.prefixes & SUPERFLUOUS:
        return True
    for p in ref.prefixes:
        if p in ("repz", "repe", "repnz", "repne") and not (ref.mn.startswith("cmps") or ref.mn.startswith("scas")):
            return True
        if p == "rep" and not any(ref.mn.startswith(k) for k in ("movs", "stos", "lods", "ins", "outs")):
            return True
    return False


PREFIX_GROUPS = [(0xF0,), (0xF2, 0xF3), (0x2E, 0x36, 0x3E, 0x26, 0x64, 0x65), (0x66,), (0x67,)]


def repeated_prefix(b):
    """two prefix bytes of the same group in front of one opcode (lock lock, two segment overrides, f2 f3): at least one of
    them has no effect, whatever the text shows"""
    seen = set()
    for x in bytes(b):
        g = [k for k, grp in enumerate(PREFIX_GROUPS) if x in grp]
        if not g:
            return False
        if g[0] in seen:
            return True
        seen.add(g[0])
    return False


def canon_prefixes(ins):
    out = set()
    for p in ins.prefixes:
        if p in ("rep", "repz", "repe", "[0xf3]"):
            out.add("rep")
        elif p in ("repnz", "repne", "[0xf2]"):
            out.add("repnz")
        elif p == "lock":
            out.add("lock")
    return out


def diff(a, b, opsize16=False):
    """a: miasmX's instruction, b: the reference's -> None or (field, detail)"""
    if canon_prefixes(a) != canon_prefixes(b):
        return ("prefix", "%s vs %s" % (sorted(canon_prefixes(a)), sorted(canon_prefixes(b))))
    if a.mn != b.mn:
        return ("mnemonic", "%s vs %s" % (a.mn, b.mn))
    if sorted(a.extra) != sorted(b.extra):
        return ("string-operand", "%s vs %s" % (a.extra, b.extra))
    if len(a.ops) != len(b.ops):
        return ("operand-count", "%d vs %d" % (len(a.ops), len(b.ops)))
    ao, bo = list(a.ops), list(b.ops)
    if a.mn in SYMMETRIC and len(ao) == 2 and ao[0][0] == "reg" and bo[0][0] == "reg" and ao[1][0] == "reg" and bo[1][0] == "reg":
        ao, bo = sorted(ao), sorted(bo)
    elif a.mn in SYMMETRIC and len(ao) == 2 and ao[0][0] != bo[0][0]:
        bo = [bo[1], bo[0]]
    w = width_hint(b) or width_hint(a) or 32
    if w not in (8, 16, 32):
        w = 32
    for i, (x, y) in enumerate(zip(ao, bo)):
        if x[0] == "imm" and y[0] == "mem" and not y[3] and a.mn not in BRANCH:
            # miasmX renders an absolute memory operand without size keyword as a bare number
            if (x[1] - y[4]) & 0xFFFFFFFF == 0:
                continue
        if x[0] == "mem" and y[0] == "imm" and a.mn == "push" and not x[3] and x[2] is None:
            # miasmX writes a 16-bit immediate push as 'push WORD PTR 4352' (its own test-suite uses this form)
            if (x[4] - y[1]) & 0xFFFFFFFF == 0:
                continue
        if x[0] != y[0]:
            return ("operand%d-kind" % i, "%s vs %s" % (x[0], y[0]))
        k = x[0]
        if k == "reg" and x[1] != y[1]:
            return ("operand%d-register" % i, "%s vs %s" % (x[1], y[1]))
        if k == "imm":
            m = (1 << w) - 1
            if (x[1] - y[1]) & m:
                # an immediate narrower than the operand (imm8 of shifts, enter, out...) is compared as written
                return ("operand%d-immediate" % i, "0x%x vs 0x%x (mod 2^%d)" % (x[1] & 0xFFFFFFFF, y[1] & 0xFFFFFFFF, w))
        if k == "rel":
            m = 0xFFFF if opsize16 else 0xFFFFFFFF
            if (x[1] - y[1]) & m:
                return ("operand%d-displacement" % i, "0x%x vs 0x%x" % (x[1] & m, y[1] & m))
        if k == "far" and (x[1] != y[1] or (x[2] - y[2]) & 0xFFFFFFFF):
            return ("operand%d-farpointer" % i, "%s vs %s" % (x[1:], y[1:]))
        if k == "mem":
            if x[1] and y[1] and x[1] != y[1]:
                return ("operand%d-size" % i, "%d vs %d" % (x[1], y[1]))
            if eff_seg(x) != eff_seg(y):
                return ("operand%d-segment" % i, "%s vs %s" % (eff_seg(x), eff_seg(y)))
            if plain_regs(x[3]) != plain_regs(y[3]):      # which register is the base matters only through the effective segment, judged above
                return ("operand%d-base/index/scale" % i, "%s vs %s" % (sorted(x[3]), sorted(y[3])))
            a16 = any(r in REG16 for r, s in x[3]) or any(r in REG16 for r, s in y[3])
            m = 0xFFFF if a16 else 0xFFFFFFFF
            if (x[4] - y[4]) & m:
                return ("operand%d-displacement" % i, "0x%x vs 0x%x" % (x[4] & m, y[4] & m))
        if k == "unk":
            return ("operand%d-unparsed" % i, "%r vs %r" % (x[1], y[1]))
    return None
