"""G2 - assembly lines built from a structured *spec*; Intel and AT&T printers written for the harness.

spec = {"mn": mnemonic, "ops": [operand, ...], "w": operand width in bits (or None)}
operand = ("reg", name) | ("imm", value) | ("mem", size_bits|None, seg|None, base|None, index|None, scale, disp) | ("rel", value)

    intel(spec) -> text          att(spec) -> text or None (no transliteration for this family)
    expected(spec) -> nf.Insn-like (mn, ops) the line denotes, in the normal form of vlib/nf.py
    strategy(...)  -> Hypothesis strategy of specs
The operand shapes per mnemonic come from the table FAMILIES (hand-written by mnemonic class); a spec the assembler rejects is simply
outside the domain ("for every line the assembler accepts").
"""
from hypothesis import strategies as st

R8 = ["al", "cl", "dl", "bl", "ah", "ch", "dh", "bh"]
R16 = ["ax", "cx", "dx", "bx", "sp", "bp", "si", "di"]
R32 = ["eax", "ecx", "edx", "ebx", "esp", "ebp", "esi", "edi"]
SREG = ["es", "cs", "ss", "ds", "fs", "gs"]
MM = ["mm%d" % i for i in range(8)]
XMM = ["xmm%d" % i for i in range(8)]
ST = ["st(%d)" % i for i in range(8)]
CR = ["cr0", "cr2", "cr3", "cr4"]
DR = ["dr0", "dr1", "dr2", "dr3", "dr6", "dr7"]
SIZEKW = {8: "BYTE", 16: "WORD", 32: "DWORD", 48: "FWORD", 64: "QWORD", 80: "TBYTE", 128: "XMMWORD"}
CCS = ["o", "no", "b", "ae", "e", "ne", "be", "a", "s", "ns", "p", "np", "l", "ge", "le", "g"]
CC_ALIASES = {"b": ["b", "c", "nae"], "ae": ["ae", "nb", "nc"], "e": ["e", "z"], "ne": ["ne", "nz"], "be": ["be", "na"], "a": ["a", "nbe"],
              "p": ["p", "pe"], "np": ["np", "po"], "l": ["l", "nge"], "ge": ["ge", "nl"], "le": ["le", "ng"], "g": ["g", "nle"]}

BOUNDARY_IMM = [-129, -128, -1, 0, 1, 127, 128, 255, 256, 32767, 32768, 65535, 2 ** 31 - 1, 2 ** 31, 2 ** 32 - 1, 2 ** 32, -2 ** 31, -2 ** 31 - 1, -32768, -32769, 65536, 2, 16]
BOUNDARY_DISP = [0, 1, -1, 4, 8, 127, 128, -128, -129, 0x1234, 0x12345678, 0x7FFFFFFF, -0x80000000]

ALU2 = ["add", "or", "adc", "sbb", "and", "sub", "xor", "cmp"]
UNARY = ["inc", "dec", "neg", "not", "mul", "div", "imul", "idiv"]
SHIFT = ["shl", "shr", "sar", "rol", "ror", "rcl", "rcr", "sal"]
NOOP = ["nop", "ret", "leave", "cdq", "cwde", "cbw", "cwd", "hlt", "clc", "stc", "cld", "std", "cmc", "cli", "sti", "pushad", "popad", "pushfd", "popfd", "lahf", "sahf",
        "movsb", "movsw", "movsd", "stosb", "stosw", "stosd", "lodsb", "lodsd", "scasb", "scasd", "cmpsb", "cmpsd", "cpuid", "rdtsc", "ud2", "int3", "into", "iret",
        "aaa", "aas", "daa", "das", "xlat", "wait", "pause", "fnop", "fchs", "fabs", "fsqrt", "fld1", "fldz", "fldpi", "fsin", "fcos", "frndint", "fxam", "ftst",
        "emms", "sfence", "lfence", "mfence"]

# (mnemonic list, list of shapes); a shape is a tuple of operand classes
RM = lambda w: ("rm%d" % w)
FAMILIES = [
    (ALU2, [(RM(8), "r8"), (RM(16), "r16"), (RM(32), "r32"), ("r8", "m8"), ("r16", "m16"), ("r32", "m32"), (RM(8), "i8"), (RM(16), "i16"), (RM(32), "i32")]),
    (["test"], [(RM(8), "r8"), (RM(16), "r16"), (RM(32), "r32"), (RM(8), "i8"), (RM(16), "i16"), (RM(32), "i32")]),
    (["mov"], [(RM(8), "r8"), (RM(16), "r16"), (RM(32), "r32"), ("r8", "m8"), ("r16", "m16"), ("r32", "m32"), (RM(8), "i8"), (RM(16), "i16"), (RM(32), "i32"),
               ("r32", "sreg"), ("sreg", "r32")]),
    (["xchg", "xadd", "cmpxchg"], [(RM(8), "r8"), (RM(16), "r16"), (RM(32), "r32")]),
    (UNARY, [(RM(8),), (RM(16),), (RM(32),)]),
    (SHIFT, [(RM(8), "ib"), (RM(16), "ib"), (RM(32), "ib"), (RM(8), "cl"), (RM(32), "cl"), (RM(32), "one")]),
    (["shld", "shrd"], [(RM(16), "r16", "ib"), (RM(32), "r32", "ib"), (RM(32), "r32", "cl")]),
    (["movzx", "movsx"], [("r16", RM(8)), ("r32", RM(8)), ("r32", RM(16))]),
    (["lea"], [("r32", "mx"), ("r16", "mx")]),
    (["push"], [("r32",), ("r16",), ("m32",), ("m16",), ("i32",), ("i16",), ("sreg",)]),
    (["pop"], [("r32",), ("r16",), ("m32",), ("sreg_nocs",)]),
    (["set" + c for c in CCS], [(RM(8),)]),
    (["cmov" + c for c in CCS], [("r16", RM(16)), ("r32", RM(32))]),
    (["j" + c for c in CCS] + ["jmp", "call", "loop", "loope", "loopne", "jecxz"], [("rel",)]),
    (["jmp", "call"], [(RM(32),)]),
    (["bt", "bts", "btr", "btc"], [(RM(16), "r16"), (RM(32), "r32"), (RM(32), "ib"), (RM(16), "ib")]),
    (["bsf", "bsr"], [("r16", RM(16)), ("r32", RM(32))]),
    (["imul"], [("r16", RM(16)), ("r32", RM(32)), ("r32", RM(32), "i32"), ("r16", RM(16), "i16")]),
    (["ret"], [("iu16",)]),
    (["int"], [("iu8",)]),
    (["in"], [("al", "iu8"), ("eax", "iu8"), ("al", "dx"), ("eax", "dx")]),
    (["out"], [("iu8", "al"), ("iu8", "eax"), ("dx", "al"), ("dx", "eax")]),
    (["bswap"], [("r32",)]),
    (["enter"], [("iu16", "iu8")]),
    (NOOP, [()]),
    (["fld", "fst", "fstp"], [("m32f",), ("m64f",), ("sti",)]),
    (["fld", "fstp"], [("m80f",)]),
    (["fadd", "fsub", "fmul", "fdiv", "fsubr", "fdivr"], [("m32f",), ("m64f",), ("st0", "sti"), ("sti", "st0")]),
    (["fcom", "fcomp"], [("m32f",), ("m64f",), ("sti",)]),
    (["fild", "fistp"], [("m16",), ("m32",), ("m64",)]),
    (["fist", "fiadd", "fisub", "fimul", "fidiv"], [("m16",), ("m32",)]),
    (["fxch", "ffree", "fucom", "fucomp"], [("sti",)]),
    (["faddp", "fsubp", "fmulp", "fdivp", "fsubrp", "fdivrp"], [("sti", "st0")]),
    (["fcomi", "fucomi", "fcomip", "fucomip", "fcmovb", "fcmove", "fcmovbe", "fcmovu", "fcmovnb", "fcmovne", "fcmovnbe", "fcmovnu"], [("st0", "sti")]),
    (["fnstcw", "fldcw", "fnstsw"], [("m16",)]),
    (["fnstsw"], [("ax",)]),
    (["movd"], [("mm", RM(32)), ("xmm", RM(32)), (RM(32), "mm"), (RM(32), "xmm")]),
    (["movq"], [("mm", "mmm64"), ("xmm", "xmmm64"), ("m64", "mm"), ("m64", "xmm")]),
    (["paddb", "paddw", "paddd", "paddq", "psubb", "psubw", "psubd", "pxor", "pand", "pandn", "por", "pcmpeqb", "pcmpeqd", "pcmpgtb", "punpckhdq",
      "pmullw", "pmaddwd", "packsswb", "packuswb", "paddusb", "psubusw", "pavgb", "pminub", "pmaxsw"], [("mm", "mmm64"), ("xmm", "xmmm128")]),
    (["psllw", "pslld", "psllq", "psrlw", "psrld", "psrlq", "psraw", "psrad"], [("mm", "ib"), ("xmm", "ib"), ("mm", "mmm64"), ("xmm", "xmmm128")]),
    (["movaps", "movups", "movapd", "movupd", "movdqa", "movdqu"], [("xmm", "xmmm128"), ("m128", "xmm")]),
    (["addps", "subps", "mulps", "divps", "andps", "orps", "xorps", "andnps", "minps", "maxps", "sqrtps", "addpd", "mulpd", "xorpd", "unpcklps", "unpckhpd",
      "cvtdq2ps", "cvtps2dq"], [("xmm", "xmmm128")]),
    (["addss", "subss", "mulss", "divss", "sqrtss", "cvtss2sd", "comiss", "ucomiss"], [("xmm", "xmmm32")]),
    (["addsd", "subsd", "mulsd", "divsd", "sqrtsd", "cvtsd2ss", "comisd", "ucomisd"], [("xmm", "xmmm64")]),
    (["movss"], [("xmm", "xmmm32"), ("m32", "xmm")]),
    (["movsd"], [("xmm", "xmmm64x"), ("m64", "xmm")]),
    (["cvtsi2ss", "cvtsi2sd"], [("xmm", RM(32))]),
    (["cvttss2si", "cvtss2si"], [("r32", "xmmm32")]),
    (["cvttsd2si", "cvtsd2si"], [("r32", "xmmm64")]),
    (["pshufd", "pshufhw", "pshuflw", "shufps", "shufpd"], [("xmm", "xmmm128", "iu8")]),
    (["pshufw"], [("mm", "mmm64", "iu8")]),
    (["pextrw"], [("r32", "mm", "iu8"), ("r32", "xmm", "iu8")]),
    (["pinsrw"], [("mm", "r32", "iu8"), ("xmm", "r32", "iu8")]),
    (["movhps", "movlps", "movhpd", "movlpd"], [("xmm", "m64"), ("m64", "xmm")]),
    (["movntq"], [("m64", "mm")]),
    (["movntps", "movntdq"], [("m128", "xmm")]),
    (["prefetcht0", "prefetchnta", "clflush"], [("m8",)]),
    (["ldmxcsr", "stmxcsr"], [("m32",)]),
    (["lds", "les", "lfs", "lgs", "lss"], [("r32", "mx")]),
    (["cmpxchg8b"], [("m64",)]),
]


def all_pairs():
    out = []
    for mns, shapes in FAMILIES:
        for m in mns:
            for s in shapes:
                out.append((m, s))
    return out


@st.composite
def mem(draw, size, simple=False):
    seg = draw(st.sampled_from([None] * 5 + SREG))
    form = draw(st.sampled_from(["b", "bd", "bis", "bisd", "isd", "d", "bi"])) if not simple else draw(st.sampled_from(["b", "bd"]))
    base = draw(st.sampled_from(R32)) if "b" in form else None
    index = draw(st.sampled_from([r for r in R32 if r != "esp"])) if "i" in form else None
    scale = draw(st.sampled_from([1, 2, 4, 8])) if ("s" in form and index) else 1
    if form == "bi":
        scale = 1
    disp = draw(st.one_of(st.sampled_from(BOUNDARY_DISP), st.integers(-2 ** 31, 2 ** 31 - 1))) if "d" in form else 0
    if form == "d":
        disp = draw(st.sampled_from([0x1000, 0x12345678, 0x7FFFFFFF, 20, 0]))
    return ("mem", size, seg, base, index, scale, disp)


def imm_values(w, signed_ok=True):
    return st.one_of(st.sampled_from(BOUNDARY_IMM), st.integers(-2 ** (w - 1), 2 ** w - 1))


@st.composite
def operand(draw, cls):
    if cls in ("r8", "r16", "r32"):
        return ("reg", draw(st.sampled_from({"r8": R8, "r16": R16, "r32": R32}[cls])))
    if cls.startswith("rm"):
        w = int(cls[2:])
        if draw(st.booleans()):
            return ("reg", draw(st.sampled_from({8: R8, 16: R16, 32: R32}[w])))
        return draw(mem(w))
    if cls in ("m8", "m16", "m32", "m64", "m128"):
        return draw(mem(int(cls[1:])))
    if cls in ("m32f", "m64f", "m80f"):
        return draw(mem(int(cls[1:3])))
    if cls == "mx":
        return draw(mem(None))
    if cls in ("i8", "i16", "i32"):
        return ("imm", draw(imm_values(int(cls[1:]))))
    if cls == "ib":
        return ("imm", draw(st.sampled_from([0, 1, 2, 7, 8, 15, 16, 31, 32, 33, 255, 256, -1])))
    if cls == "iu8":
        return ("imm", draw(st.sampled_from([0, 1, 3, 0x7F, 0x80, 0xFF, 0x100, -1])))
    if cls == "iu16":
        return ("imm", draw(st.sampled_from([0, 4, 8, 0x7FFF, 0x8000, 0xFFFF, 0x10000, -1])))
    if cls == "one":
        return ("imm", 1)
    if cls == "cl":
        return ("reg", "cl")
    if cls in ("al", "ax", "eax", "dx"):
        return ("reg", cls)
    if cls == "sreg":
        return ("reg", draw(st.sampled_from(SREG)))
    if cls == "sreg_nocs":
        return ("reg", draw(st.sampled_from([s for s in SREG if s != "cs"])))
    if cls == "cr":
        return ("reg", draw(st.sampled_from(CR)))
    if cls == "dr":
        return ("reg", draw(st.sampled_from(DR)))
    if cls == "mm":
        return ("reg", draw(st.sampled_from(MM)))
    if cls == "xmm":
        return ("reg", draw(st.sampled_from(XMM)))
    if cls in ("mmm64",):
        return ("reg", draw(st.sampled_from(MM))) if draw(st.booleans()) else draw(mem(64))
    if cls.startswith("xmmm"):
        w = int(cls[4:].rstrip("x"))
        return ("reg", draw(st.sampled_from(XMM))) if draw(st.booleans()) else draw(mem(w))
    if cls == "st0":
        return ("reg", "st")
    if cls == "sti":
        return ("reg", draw(st.sampled_from(ST)))
    if cls == "rel":
        return ("rel", draw(st.sampled_from([0, 2, 5, 0x7F, 0x80, -0x80, -0x81, 0x1000, -0x1000, 0x12345678, -2])))
    raise ValueError(cls)


def shape_width(shape):
    for c in shape:
        for w in (8, 16, 32):
            if c in ("r%d" % w, "rm%d" % w, "m%d" % w, "i%d" % w):
                return w
    return None


@st.composite
def spec(draw, pairs=None):
    mn, shape = draw(st.sampled_from(pairs or all_pairs()))
    ops = [draw(operand(c)) for c in shape]
    return {"mn": mn, "shape": list(shape), "ops": ops, "w": shape_width(shape)}


# ---- printers -----------------------------------------------------------------------------
LEAD0 = False      # when set, decimal numbers that cannot be read as octal (they contain an 8 or a 9) are written with a leading zero


def dec(v):
    t = str(v)
    if LEAD0 and ("8" in t or "9" in t):
        return ("-0" + t[1:]) if v < 0 else ("0" + t)
    return t


def num_intel(v, style=0):
    if style == 1:
        return ("-0x%x" % -v) if v < 0 else ("0x%x" % v)
    return dec(v)


def mem_intel(o, style=0):
    _, size, seg, base, index, scale, disp = o
    terms = []
    if base:
        terms.append(base)
    if index:
        terms.append(index if scale == 1 else "%s*%d" % (index, scale))
    body = "+".join(terms)
    if disp or not terms:
        if terms:
            body += ("+" if disp >= 0 else "-") + num_intel(abs(disp), style)
        else:
            body = num_intel(disp, style)
    s = ""
    if size:
        s += SIZEKW[size] + " PTR "
    if seg:
        s += seg + ":"
    return s + "[" + body + "]"


def op_intel(o, style=0):
    if o[0] == "reg":
        return o[1]
    if o[0] in ("imm", "rel"):
        return num_intel(o[1], style)
    return mem_intel(o, style)


def intel(sp, style=0):
    ops = ", ".join(op_intel(o, style) for o in sp["ops"])
    if sp["mn"] == "push" and sp.get("w") == 16 and sp["ops"] and sp["ops"][0][0] == "imm":
        ops = "WORD PTR " + ops        # an immediate carries no size of its own
    return (sp["mn"] + " " + ops).strip()


ATT_SUFFIX = {8: "b", 16: "w", 32: "l"}
ATT_OK = set(ALU2 + ["test", "mov", "xchg", "xadd", "cmpxchg", "lea", "push", "pop", "bt", "bts", "btr", "btc", "bsf", "bsr", "imul", "ret", "int", "bswap"] + UNARY + SHIFT +
             ["shld", "shrd", "movzx", "movsx", "jmp", "call", "enter"] + ["set" + c for c in CCS] + ["cmov" + c for c in CCS] + ["j" + c for c in CCS] + NOOP +
             ["movd", "movq", "pxor", "paddd", "movaps", "movups", "addps", "addss", "addsd", "xorps", "pshufd", "movdqa", "movss", "movsd", "cvtsi2sd", "cvttsd2si"])


def op_att(o):
    if o[0] == "reg":
        return "%" + o[1]
    if o[0] == "imm":
        return "$" + dec(o[1])
    if o[0] == "rel":
        return dec(o[1])
    _, size, seg, base, index, scale, disp = o
    s = (("%" + seg + ":") if seg else "")
    if disp or not (base or index):
        s += dec(disp)
    if base or index:
        s += "(" + (("%" + base) if base else "")
        if index:
            s += ",%" + index
            if scale != 1 or not base:
                s += ",%d" % scale
        s += ")"
    return s


def att(sp):
    mn = sp["mn"]
    if mn not in ATT_OK:
        return None
    ops = sp["ops"]
    w = sp.get("w")
    shape = sp.get("shape", [])
    name = mn
    if mn in ("movzx", "movsx"):
        src = 8 if "8" in shape[1] else 16
        dst = 16 if shape[0] == "r16" else 32
        name = ("movz" if mn == "movzx" else "movs") + ATT_SUFFIX[src] + ATT_SUFFIX[dst]
    elif mn in NOOP and not ops:
        name = {"pushad": "pushal", "popad": "popal", "pushfd": "pushfl", "popfd": "popfl", "cwde": "cwtl", "cdq": "cltd", "cbw": "cbtw", "cwd": "cwtd",
                "movsd": "movsl", "stosd": "stosl", "lodsd": "lodsl", "scasd": "scasl", "cmpsd": "cmpsl"}.get(mn, mn)
    elif w and (mn in ALU2 or mn in UNARY or mn in SHIFT or mn in ("test", "mov", "xchg", "xadd", "cmpxchg", "shld", "shrd", "bt", "bts", "btr", "btc", "bsf", "bsr", "imul", "lea")
                or mn.startswith("cmov")):
        if not any(o[0] == "reg" and o[1] in SREG + CR + DR for o in ops):
            name = mn + ATT_SUFFIX[w]
    elif mn in ("push", "pop") and ops and (ops[0][0] != "reg" or ops[0][1] in R32 + R16):
        ww = 16 if (ops[0][0] == "reg" and ops[0][1] in R16) or (ops[0][0] != "reg" and w == 16) else 32
        name = mn + ATT_SUFFIX[ww]
    elif mn in ("jmp", "call") and ops and ops[0][0] != "rel":
        return "%s *%s" % (mn, op_att(ops[0]))
    elif mn == "enter":
        # two immediates: AT&T keeps the Intel order (GNU as: enter $8, $1 = c8 08 00 01)
        return "enter " + ", ".join(op_att(o) for o in ops)
    elif mn == "lea":
        name = "leal" if ops[0][1] in R32 else "leaw"
    return (name + " " + ", ".join(op_att(o) for o in reversed(ops))).strip()


# ---- denotation in the normal form of vlib/nf.py ---------------------------------------------
def expected(sp):
    """(mnemonic, operands) in nf form; immediates are kept as the requested integers"""
    from vlib import nf
    ops = []
    for o in sp["ops"]:
        if o[0] == "reg":
            ops.append(("reg", nf.parse_reg(o[1]) or o[1]))
        elif o[0] == "imm":
            ops.append(("imm", o[1]))
        elif o[0] == "rel":
            ops.append(("rel", o[1] & 0xFFFFFFFF))
        else:
            _, size, seg, base, index, scale, disp = o
            regs = {}
            if base:
                regs[base] = regs.get(base, 0) + 1
            if index:
                regs[index] = regs.get(index, 0) + scale
            ops.append(("mem", size, seg, frozenset(regs.items()), disp & 0xFFFFFFFF))
    return nf.canon_mn(sp["mn"]), ops


# ---- presentation-only variants of the Intel text (C19) ------------------------------------------
def num_variant(v, style):
    if style == "hex":
        return ("-0x%x" % -v) if v < 0 else ("0x%x" % v)
    if style == "HEX":
        return ("-0X%X" % -v) if v < 0 else ("0X%X" % v)
    if style == "lead0":
        return ("-0x%08x" % -v) if v < 0 else ("0x%08x" % v)
    if style == "dec0":      # a decimal numeral with a leading zero, only where the digits admit no octal reading (seed C19-r8-2)
        t = str(abs(v))
        if "8" in t or "9" in t:
            return ("-0" if v < 0 else "0") + t
        return str(v)
    if style == "wrap32hex":
        return "0x%X" % (v & 0xFFFFFFFF)
    if style == "wrap32dec":
        return str(v & 0xFFFFFFFF)
    return str(v)


def intel_variant(sp, opt):
    """opt keys: regcase ('upper'), kwcase ('lower'), space (int), num (style), num32 (style for 32-bit immediates/displacements),
    memorder (0..3), pct (bool), st ('st(0)'|'ST'...)"""
    def reg(r):
        if r == "st" and opt.get("st"):
            r = opt["st"]
        if opt.get("regcase") == "upper":
            r = r.upper()
        elif opt.get("regcase") == "capital":
            r = r[:1].upper() + r[1:]
        elif opt.get("regcase") == "alternate":
            r = "".join(c.upper() if i % 2 else c for i, c in enumerate(r))
        if opt.get("pct"):
            r = "%" + r
        return r

    def kw(size):
        k = SIZEKW[size] + " PTR"
        if opt.get("kwcase") == "capital":
            return " ".join(w.capitalize() for w in k.split())
        return k.lower() if opt.get("kwcase") == "lower" else k

    sp_ = " " * opt.get("space", 0)

    def number(v, is32):
        st_ = opt.get("num32") if (is32 and opt.get("num32")) else opt.get("num", "dec")
        return num_variant(v, st_)

    def memop(o):
        _, size, seg, base, index, scale, disp = o
        terms = []
        if base:
            terms.append(reg(base))
        if index:
            if scale == 1:
                terms.append(reg(index))
            elif opt.get("memorder") == 2:
                terms.append("%d%s*%s%s" % (scale, sp_, sp_, reg(index)))
            else:
                terms.append("%s%s*%s%d" % (reg(index), sp_, sp_, scale))
        unambiguous = not (base and index and scale == 1)
        mo = opt.get("memorder", 0)
        if mo in (1, 2) and unambiguous and len(terms) == 2:
            terms = [terms[1], terms[0]]
        d = None
        if disp or not terms:
            d = number(abs(disp) if terms and opt.get("num32") is None else disp, True)
        s = ""
        if size:
            s += kw(size) + " "
        if seg:
            s += reg(seg) + ":"
        plus = sp_ + "+" + sp_
        if not terms:
            return s + "[" + sp_ + number(disp, True) + sp_ + "]"
        if d is None:
            z = opt.get("zero")
            if z and unambiguous:
                # an explicit zero displacement denotes the same operand as none
                body = plus.join(terms)
                if z == 1:
                    return s + "[" + sp_ + body + plus + "0" + sp_ + "]"
                if z == 3:
                    return s + "[" + sp_ + "0" + plus + body + sp_ + "]"
                return s + ("0" if z == 2 else "0x0") + "[" + sp_ + body + sp_ + "]"
            return s + "[" + sp_ + plus.join(terms) + sp_ + "]"
        if opt.get("num32") is None:
            sign = "-" if disp < 0 else "+"
            if mo == 3 and unambiguous and disp >= 0:
                return s + d + "[" + sp_ + plus.join(terms) + sp_ + "]"          # displacement outside the brackets
            if mo == 1 and unambiguous and disp >= 0:
                return s + "[" + sp_ + d + plus + plus.join(terms) + sp_ + "]"      # displacement first
            return s + "[" + sp_ + plus.join(terms) + sp_ + sign + sp_ + d + sp_ + "]"
        return s + "[" + sp_ + plus.join(terms) + plus + d + sp_ + "]"

    ops = []
    for o, cls in zip(sp["ops"], sp.get("shape") or [None] * len(sp["ops"])):
        if o[0] == "reg":
            ops.append(reg(o[1]))
        elif o[0] in ("imm", "rel"):
            ops.append(number(o[1], cls == "i32"))
            if sp["mn"] == "push" and sp.get("w") == 16 and o[0] == "imm":
                ops[-1] = kw(16) + " " + ops[-1]
        else:
            ops.append(memop(o))
    sep = "," + (" " * (1 + opt.get("space", 0)) if opt.get("space", 0) != 9 else "\t")
    return (sp["mn"] + " " + " " * opt.get("space", 0) + sep.join(ops)).rstrip()


REWRITES = {
    "register-case": {"regcase": "upper"},
    "keyword-case": {"kwcase": "lower"},
    "register-capitalised": {"regcase": "capital"},
    "register-alternating-case": {"regcase": "alternate"},
    "keyword-capitalised": {"kwcase": "capital"},
    "spacing": {"space": 2},
    "tab-after-comma": {"space": 9},
    "hexadecimal": {"num": "hex"},
    "hexadecimal-0X": {"num": "HEX"},
    "leading-zeros": {"num": "lead0"},
    "decimal-leading-zero": {"num": "dec0"},
    "minus-one-as-0xFFFFFFFF": {"num32": "wrap32hex"},
    "minus-one-as-4294967295": {"num32": "wrap32dec"},
    "memory-term-order": {"memorder": 1},
    "scale-before-index": {"memorder": 2},
    "displacement-outside-brackets": {"memorder": 3},
    "zero-displacement-last": {"zero": 1},
    "zero-displacement-outside-brackets": {"zero": 2},
    "zero-displacement-first": {"zero": 3},
    "zero-displacement-outside-brackets-hex": {"zero": 4},
    "percent-prefix": {"pct": True},
    "st-as-st(0)": {"st": "st(0)"},
    "ST-uppercase": {"st": "ST", "regcase": "upper"},
}
