"""Driver for the native 32-bit executor .build/cpu32 (reference R3: the processor itself).

    cpu = CPU()                      # builds the executor on demand
    out = cpu.run([case, ...])       # case: dict(code=bytes, stubs=[addr], regs=[8], eflags=int, data=bytes(1024), fx=bytes(512)|None)
    -> list of dict(regs=[8], eflags=int, marker=int, data=bytes(1024), fx=bytes|None, fault=signal or None)
Addresses: code page 0x20000000 (instruction at +0x800; with case["low"] the page 0x8000, instruction at 0x8800), data page 0x30000000 (window +0x600 .. +0xA00 is transferred).
"""
import os
import struct
import subprocess
from vlib import runner

HERE = os.path.dirname(os.path.dirname(os.path.abspath(__file__)))
CODE, DATA = 0x20000000, 0x30000000
ENTRY = CODE + 0x800
LOW = 0x8000            # second code page below 64 KiB (case["low"]): 66-prefixed near branches truncate EIP to 16 bits and stay inside it
ENTRY_LOW = LOW + 0x800
WIN_OFF, WIN_LEN = 0x600, 1024
WIN = DATA + WIN_OFF
REGS = ["eax", "ecx", "edx", "ebx", "esp", "ebp", "esi", "edi"]
STATUS = {"cf": 0, "pf": 2, "af": 4, "zf": 6, "nf": 7, "df": 10, "of": 11}      # miasmX names; nf = SF
FLAG_MASK = sum(1 << b for b in STATUS.values())


def exe():
    p = os.path.join(HERE, ".build", "cpu32")
    src = os.path.join(HERE, "vlib", "cpu32", "cpu32.c")
    if not os.path.exists(p) or os.path.getmtime(p) < os.path.getmtime(src):
        r = subprocess.run(["sh", os.path.join(HERE, "vlib", "cpu32", "build.sh")], stdout=subprocess.PIPE, stderr=subprocess.PIPE)
        if r.returncode != 0 or not os.path.exists(p):
            raise runner.Inconclusive("cannot build the cpu32 executor: %s" % r.stderr.decode(errors="replace")[-300:])
    return p


class CPU(object):
    def __init__(self):
        self.p = None

    def start(self):
        self.p = subprocess.Popen([exe()], stdin=subprocess.PIPE, stdout=subprocess.PIPE)

    def close(self):
        if self.p:
            try:
                self.p.stdin.close()
                self.p.wait(timeout=5)
            except Exception:
                self.p.kill()
            self.p = None

    def run(self, cases):
        """all cases in one write / read; a dead executor (should not happen: faults are caught) raises Inconclusive"""
        if self.p is None or self.p.poll() is not None:
            self.start()
        buf = bytearray()
        sizes = []
        for c in cases:
            fx = c.get("fx")
            code = bytes(c["code"])[:16]
            stubs = list(c.get("stubs", []))[:8]
            buf += struct.pack("<III", 0x43505533, (1 if fx else 0) | (2 if c.get("low") else 0), len(code)) + code.ljust(16, b"\xcc")
            buf += struct.pack("<I8I", len(stubs), *(stubs + [0] * (8 - len(stubs))))
            buf += struct.pack("<8I", *[r & 0xFFFFFFFF for r in c["regs"]])
            buf += struct.pack("<I", (c["eflags"] & FLAG_MASK) | 0x202)
            data = bytes(c["data"])
            assert len(data) == WIN_LEN
            buf += data
            if fx:
                assert len(fx) == 512
                buf += bytes(fx)
            sizes.append(40 + WIN_LEN + (512 if fx else 0))
        out = []
        # write and read in chunks to avoid pipe deadlock
        import threading
        err = []

        def writer():
            try:
                self.p.stdin.write(buf)
                self.p.stdin.flush()
            except Exception as e:
                err.append(e)
        t = threading.Thread(target=writer)
        t.start()
        for n, c in zip(sizes, cases):
            raw = self.p.stdout.read(n)
            if len(raw) != n:
                t.join()
                self.close()
                raise runner.Inconclusive("cpu32 executor died (read %d of %d bytes)" % (len(raw), n))
            regs = list(struct.unpack("<8I", raw[:32]))
            eflags, marker = struct.unpack("<II", raw[32:40])
            data = raw[40:40 + WIN_LEN]
            fx = raw[40 + WIN_LEN:] if c.get("fx") else None
            fault = (marker & 0xFFFF) if (marker >> 16) == 0xFFFF else None
            out.append({"regs": regs, "eflags": eflags, "marker": marker, "data": data, "fx": fx, "fault": fault})
        t.join()
        return out
