"""Common machinery: tiers, seeds, evidence, root-cause buckets, known findings, replay.

A check module exposes
    main(run)            generate cases, call run.check()/run.hyp()/run.merge()
    replay(run, case)    re-run one JSON case through the oracle, return None or (sig, detail)
A *case* is always a JSON-serialisable value.  A *sig* is a flat tuple of str/int
naming the mechanism that failed (never the whole input).
"""
import os
import sys
import json
import time
import collections
import multiprocessing

HERE = os.path.dirname(os.path.dirname(os.path.abspath(__file__)))
MAX_NEW = 10          # distinct new signatures reported per run
NCPU = min(16, os.cpu_count() or 1)


class Inconclusive(Exception):
    pass


class Violation(Exception):
    def __init__(self, sig, detail, case):
        Exception.__init__(self, "%s: %s" % (sig, detail))
        self.sig, self.detail, self.case = sig, detail, case


def norm_sig(sig):
    if isinstance(sig, (list, tuple)):
        return tuple(norm_sig(x) if isinstance(x, (list, tuple)) else x for x in sig)
    return (sig,)


def jsonable(x):
    if isinstance(x, (bytes, bytearray)):
        return bytes(x).hex()
    if isinstance(x, (list, tuple)):
        return [jsonable(i) for i in x]
    if isinstance(x, dict):
        return dict((str(k), jsonable(v)) for k, v in x.items())
    if isinstance(x, (set, frozenset)):
        return sorted(jsonable(i) for i in x)
    if isinstance(x, (int, float, str, bool)) or x is None:
        return x
    return str(x)


class Stats(object):
    """Counters that can be produced in worker processes and merged."""
    def __init__(self):
        self.evals = 0
        self.nontrivial = set()
        self.classes = collections.Counter()
        self.samples = []
        self.nsample = 0
        self.failures = []      # (sig, detail, case)
        self.known_hits = collections.Counter()
        self.excluded = collections.Counter()

    def ev(self, n=1):
        self.evals += n

    def nt(self, key):
        self.nontrivial.add(hash(key))

    def klass(self, name, n=1):
        self.classes[name] += n

    def exclude(self, why, n=1):
        self.excluded[why] += n

    def sample(self, obj):
        self.nsample += 1
        n = self.nsample
        if n <= 6 or (n & (n - 1)) == 0:
            if len(self.samples) < 40:
                self.samples.append(jsonable(obj))

    def fail(self, sig, detail, case):
        self.failures.append((norm_sig(sig), detail, jsonable(case)))

    def merge(self, o):
        self.evals += o.evals
        self.nontrivial |= o.nontrivial
        self.classes.update(o.classes)
        self.known_hits.update(o.known_hits)
        self.excluded.update(o.excluded)
        for s in o.samples:
            if len(self.samples) < 40:
                self.samples.append(s)
        self.nsample += o.nsample
        self.failures.extend(o.failures)


def load_known(pid):
    path = os.path.join(HERE, "known_findings.json")
    if not os.path.exists(path):
        return []
    with open(path) as f:
        data = json.load(f)
    return [e for e in data.get("findings", []) if e.get("property") == pid]


class Run(Stats):
    def __init__(self, pid, argv, scratch):
        Stats.__init__(self)
        self.pid = pid
        self.scratch = scratch
        self.tier = os.environ.get("VERIF_TIER", "quick")
        self.replay_path = None
        self.triage = False
        i = 0
        while i < len(argv):
            a = argv[i]
            if a == "--tier":
                self.tier = argv[i + 1]; i += 1
            elif a == "--replay":
                self.replay_path = argv[i + 1]; i += 1
            elif a == "--triage":
                self.triage = True
            i += 1
        if self.tier not in ("quick", "thorough"):
            self.tier = "quick"
        try:
            self.seed = int(os.environ.get("VERIF_SEED", "1"))
        except ValueError:
            self.seed = 1
        self.t0 = time.time()
        self.entries = load_known(pid)
        self.known = {}          # sig -> entry, for open entries whose example still violates
        self.known_lines = []
        self.resolved = []
        self.violations = []     # (sig, detail, case, path)
        self.seen = set()
        self.rule = ""
        self.assumptions = []
        self.extra = {}
        self.exhaustive = False
        self.level = "exploration"
        self.want_sig = None

    @property
    def quick(self):
        return self.tier == "quick"

    def pick(self, quick, thorough):
        return quick if self.tier == "quick" else thorough

    # ---- known findings -------------------------------------------------
    def prime(self, mod):
        """Replay the example of every listed finding before the search starts."""
        later = []      # failures of examples under a signature other than their entry's: judged once every open entry is loaded
        for e in self.entries:
            sig = norm_sig(e["sig"])
            status = e.get("status", "open")
            self.want_sig = sig      # a case may fail in several ways: replay() may use this to pick the listed one
            try:
                with quiet():
                    r = mod.replay(self, e["example"])
            except Inconclusive:
                raise
            if status == "open":
                if r is not None and norm_sig(r[0]) == sig:
                    self.known[sig] = e
                    self.known_lines.append("KNOWN-FINDING: property=%s %s" % (self.pid, e["what"]))
                else:
                    self.resolved.append({"sig": list(sig), "now": jsonable(r)})
                    if r is not None:
                        later.append((r[0], r[1], e["example"]))
            else:  # fixed: suppresses nothing; its example is a regression input
                if r is not None:
                    if norm_sig(r[0]) == sig:
                        self.record(r[0], r[1], e["example"])
                    else:
                        later.append((r[0], r[1], e["example"]))
        for s_, d_, c_ in later:
            self.note(s_, d_, c_)
        # committed regression inputs
        d = os.path.join(HERE, "replays", self.pid)
        if os.path.isdir(d):
            for fn in sorted(os.listdir(d)):
                if fn.endswith(".json"):
                    with open(os.path.join(d, fn)) as f:
                        rp = json.load(f)
                    self.want_sig = None
                    r = mod.replay(self, rp["case"])
                    self.klass("regression_inputs")
                    if r is not None:
                        self.note(r[0], r[1], rp["case"])

    def is_known(self, sig):
        return norm_sig(sig) in self.known

    # ---- recording ------------------------------------------------------
    def note(self, sig, detail, case):
        """A failed case: count it if listed, otherwise record a violation.
        Returns True when it is new (unlisted, unseen)."""
        sig = norm_sig(sig)
        if sig in self.known:
            self.known_hits[sig] += 1
            return False
        if sig in self.seen:
            self.klass("repeat_of_reported_signature")
            return False
        self.record(sig, detail, case)
        return True

    def record(self, sig, detail, case):
        sig = norm_sig(sig)
        detail = " ".join(str(detail).split())
        if sig in self.seen:
            return
        self.seen.add(sig)
        if len(self.violations) >= MAX_NEW and not self.triage:
            self.klass("violations_beyond_report_limit")
            return
        d = os.path.join(HERE, "replays")
        os.makedirs(d, exist_ok=True)
        path = os.path.join(d, "run-%s-%d.json" % (self.pid, len(self.violations)))
        with open(path, "w") as f:
            json.dump({"property": self.pid, "sig": list(sig), "detail": jsonable(detail),
                       "case": jsonable(case), "seed": self.seed, "tier": self.tier}, f, indent=1)
        self.violations.append((sig, detail, jsonable(case), path))
        if self.triage:
            print("TRIAGE sig=%s\n   detail=%s\n   case=%s" % (json.dumps(list(sig)), detail, json.dumps(jsonable(case))))

    def absorb(self, st):
        """Merge worker statistics; route their failures through note()."""
        fails = st.failures
        st.failures = []
        self.merge(st)
        for sig, detail, case in fails:
            self.note(sig, detail, case)

    def check(self, case, result):
        """result is None (held) or (sig, detail)."""
        if result is None:
            return True
        self.note(result[0], result[1], case)
        return False

    # ---- Hypothesis driver ---------------------------------------------
    def hyp(self, strategy, oracle, max_examples, seed_offset=0, to_case=None, st=None, shrink=True):
        hyp_drive(self, self, strategy, oracle, max_examples, self.seed * 1000 + seed_offset, to_case, shrink)

    # ---- end ------------------------------------------------------------
    def finish(self):
        wall = time.time() - self.t0
        cov = {
            "evaluations": int(self.evals),
            "distinct_nontrivial": len(self.nontrivial),
            "rule": self.rule,
            "samples": self.samples[:40] or ["(no sample recorded)"],
            "classes": dict(sorted(self.classes.items())),
            "excluded": dict(sorted(self.excluded.items())),
            "known_finding_hits": dict((json.dumps(list(k)), v) for k, v in sorted(self.known_hits.items())),
            "known_findings_listed": len(self.known),
            "known_findings_resolved": self.resolved,
            "exhaustive": bool(self.exhaustive),
        }
        cov.update(self.extra)
        ev = {
            "property_id": self.pid, "tier": self.tier, "seed": self.seed, "level": self.level,
            "coverage": cov, "assumptions": self.assumptions, "wall_s": round(wall, 2),
            "violations": len(self.violations),
        }
        # a developer run against a scratch copy (VERIF_REPO set to something else than /repo) must not overwrite the evidence of the real tree
        edir = os.path.join(HERE, "evidence")
        if os.path.realpath(os.environ.get("VERIF_REPO", "/repo")) != "/repo":
            edir = os.path.join(HERE, ".scratch", "evidence-of-scratch-copies")
        os.makedirs(edir, exist_ok=True)
        with open(os.path.join(edir, "%s.json" % self.pid), "w") as f:
            json.dump(ev, f, indent=1, sort_keys=True)
        for l in self.known_lines:
            print(l)
        for sig, detail, case, path in self.violations:
            print("  signature=%s detail=%s" % (json.dumps(list(sig)), str(detail)[:600]))
            print("VIOLATION property=%s replay=%s" % (self.pid, path))
        print("%s tier=%s seed=%d evaluations=%d distinct_nontrivial=%d known_hits=%d violations=%d wall=%.1fs" % (
            self.pid, self.tier, self.seed, self.evals, len(self.nontrivial),
            sum(self.known_hits.values()), len(self.violations), wall))
        sys.stdout.flush()
        return 1 if self.violations else 0

    def do_replay(self, mod):
        with open(self.replay_path) as f:
            rp = json.load(f)
        self.want_sig = norm_sig(rp["sig"]) if rp.get("sig") else None
        r = mod.replay(self, rp["case"])
        if r is None:
            print("replay: property held on this case")
            return 0
        print("  signature=%s detail=%s" % (json.dumps(list(norm_sig(r[0]))), r[1]))
        print("VIOLATION property=%s replay=%s" % (self.pid, self.replay_path))
        return 1


def hyp_drive(run, st, strategy, oracle, max_examples, seed, to_case=None, shrink=True, known=None, seen=None):
    """Run `oracle` over `strategy` with Hypothesis.  oracle(x) returns None or (sig, detail).
    Known signatures are counted and skipped; an unlisted one is shrunk, recorded on `st`,
    added to the seen set, and the search restarts (collect-then-shrink)."""
    import hypothesis
    from hypothesis import given, settings, HealthCheck, Phase
    known = run.known if known is None else known
    seen = set() if seen is None else seen
    phases = [Phase.explicit, Phase.generate] + ([Phase.shrink] if shrink else [])
    for attempt in range(MAX_NEW + 1):
        @hypothesis.seed(seed + attempt * 7919)
        @settings(max_examples=max_examples, deadline=None, database=None, derandomize=False,
                  report_multiple_bugs=False, phases=phases, print_blob=False,
                  suppress_health_check=list(HealthCheck))
        @given(strategy)
        def t(x):
            st.ev()
            r = oracle(x)
            if r is None:
                return
            sig = norm_sig(r[0])
            if sig in known:
                st.known_hits[sig] += 1
                return
            if sig in seen:
                return
            last[0] = Violation(sig, r[1], r[2] if len(r) > 2 else (to_case(x) if to_case else x))
            raise last[0]
        last = [None]
        try:
            t()
            return
        except Violation as v:
            seen.add(v.sig)
            st.fail(v.sig, v.detail, v.case)
        except hypothesis.errors.Flaky as e:
            # Every oracle is a pure function of its case (section 1.2), so a case that failed and passes when Hypothesis runs it
            # again means the code under test answered differently the second time: its result depends on earlier calls in this
            # process.  The first answer violated the property; it is reported, with the note that the case alone need not reproduce it.
            v = last[0]
            if v is None:
                raise Inconclusive("flaky under Hypothesis without a recorded failure: %s" % e)
            seen.add(v.sig)
            st.fail(v.sig, v.detail + "   [history-dependent: the same case passed when it was run again in this process - hidden state between calls]", v.case)


# ---- process pool ----------------------------------------------------------
_WORKER_FN = None
_WORKER_RUN = None


def _call(args):
    k, item = args
    if multiprocessing.current_process().name != "MainProcess" and not getattr(sys.stdout, "_verif_null", False):
        # miasmX prints diagnostics ("ERROR: b 15") on stdout; workers report through return values only
        sys.stdout = open(os.devnull, "w")
        sys.stdout._verif_null = True
    lim = getattr(_WORKER_RUN, "mem_limit", None)
    if lim and multiprocessing.current_process().name != "MainProcess":
        # a generated case that makes the code under test allocate without bound must become a MemoryError inside this worker
        # (an ordinary, classifiable exception), not an OOM kill of the machine
        import resource
        resource.setrlimit(resource.RLIMIT_AS, (lim, lim))
    st = Stats()
    _WORKER_FN(_WORKER_RUN, st, k, item)
    return st


def pmap(run, fn, items, procs=NCPU):
    """fn(run, stats, index, item) executed in forked workers; stats merged in index order."""
    global _WORKER_FN, _WORKER_RUN
    _WORKER_FN, _WORKER_RUN = fn, run
    items = list(items)
    if procs <= 1 or len(items) <= 1:
        for k, it in enumerate(items):
            run.absorb(_call((k, it)))
        return
    ctx = multiprocessing.get_context("fork")
    from concurrent.futures import ProcessPoolExecutor
    from concurrent.futures.process import BrokenProcessPool
    # (a multiprocessing.Pool waits forever for the result of a worker that was killed; this executor notices)
    with ProcessPoolExecutor(max_workers=min(procs, len(items)), mp_context=ctx) as ex:
        try:
            for st in ex.map(_call, list(enumerate(items))):
                run.absorb(st)
        except BrokenProcessPool:
            raise Inconclusive("a worker process died abruptly (killed by the system?); nothing can be concluded from this run")


class quiet(object):
    """silence miasmX's own prints in the main process"""
    def __enter__(self):
        self.old = sys.stdout
        sys.stdout = open(os.devnull, "w")
    def __exit__(self, *a):
        sys.stdout.close()
        sys.stdout = self.old


def chunks(seq, n):
    seq = list(seq)
    k = max(1, (len(seq) + n - 1) // n)
    return [seq[i:i + k] for i in range(0, len(seq), k)]
