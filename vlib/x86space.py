"""G1 - the structured x86 byte-string space.

A case is a 16-byte window: prefixes + opcode bytes + ModRM [+ SIB] + fill.  The fill is a fixed
non-repeating pattern (so that consuming one byte too many or too few changes an operand value) or
drawn values at width boundaries.  Only the *structure* is enumerated here; whether a window holds a
valid instruction is decided by the decoders.

    cases(tier, seed) -> sorted list of bytes objects (deterministic)
"""
import itertools
import hashlib

PATTERN = bytes([0x11, 0x22, 0x33, 0x44, 0x55, 0x66, 0x77, 0x08, 0x19, 0x2A, 0x3B, 0x4C, 0x5D, 0x6E, 0x7F, 0x01])
BOUNDARY_FILLS = [
    bytes([0x00] * 12), bytes([0xFF] * 12), bytes([0x7F] * 12), bytes([0x80] * 12),
    bytes([0x01, 0, 0, 0] * 3), bytes([0xFF, 0x7F, 0, 0] * 3), bytes([0, 0x80, 0xFF, 0xFF] * 3),
    bytes([0xFF, 0xFF, 0xFF, 0x7F] * 3), bytes([0, 0, 0, 0x80] * 3), bytes([0x80, 0, 0, 0] * 3),
]

PREFIX_SETS_QUICK = [b"", b"\x66", b"\x67", b"\xf2", b"\xf3", b"\x2e", b"\x64", b"\xf0"]
PREFIX_SETS_FULL = PREFIX_SETS_QUICK + [b"\x66\x67", b"\x26", b"\x36", b"\x3e", b"\x65", b"\x66\xf2", b"\x66\xf3", b"\x66\x2e",
                                        b"\x67\x64", b"\xf3\x66", b"\xf2\x67", b"\xf0\x66"]

MAPS = [b"", b"\x0f", b"\x0f\x38", b"\x0f\x3a"]


def modrm(mod, reg, rm):
    return (mod << 6) | (reg << 3) | rm


def modrm_classes_quick():
    """32 ModRM bytes: every reg/digit with 4 addressing classes, classes rotated so that all appear"""
    out = []
    mod3 = [0, 1, 4, 5, 7, 3, 2, 6]
    mod0 = [0, 3, 4, 5, 6, 7, 1, 2]
    mod1 = [0, 4, 5, 1, 6, 3, 7, 2]
    mod2 = [0, 4, 5, 2, 7, 1, 3, 6]
    for reg in range(8):
        out.append(modrm(3, reg, mod3[reg]))
        out.append(modrm(0, reg, mod0[reg]))
        out.append(modrm(1, reg, mod1[reg]))
        out.append(modrm(2, reg, mod2[reg]))
    return out


def modrm_classes_full():
    out = []
    for reg in range(8):
        for rm in (0, 1, 4, 5, 7):
            out.append(modrm(3, reg, rm))
        for rm in (0, 3, 4, 5, 6, 7):
            out.append(modrm(0, reg, rm))
        for rm in (0, 4, 5, 6):
            out.append(modrm(1, reg, rm))
        for rm in (0, 4, 5, 6):
            out.append(modrm(2, reg, rm))
    return out


def sib_classes():
    out = []
    for scale in range(4):
        for index in (0, 1, 4, 5, 7):
            for base in (0, 4, 5, 6):
                out.append((scale << 6) | (index << 3) | base)
    return out


def window(prefix, opc, rest):
    b = prefix + opc + rest
    return (b + PATTERN * 2)[:16] if len(b) < 16 else b[:16]


def _pick(seq, key, n):
    """deterministic pseudo-random choice of n elements"""
    h = int.from_bytes(hashlib.blake2b(repr(key).encode(), digest_size=8).digest(), "little")
    return [seq[(h + i * 7919) % len(seq)] for i in range(n)]


def cases(tier="quick", seed=1, maps=(0, 1, 2, 3), thin=1):
    quick = tier == "quick"
    prefs = PREFIX_SETS_QUICK if quick else PREFIX_SETS_FULL
    mrs = modrm_classes_quick() if quick else modrm_classes_full()
    sibs = sib_classes()
    out = set()
    for mi in maps:
        mp = MAPS[mi]
        # 3-byte maps are sparse: fewer prefixes
        pl = prefs if mi < 2 else [p for p in prefs if p in (b"", b"\x66", b"\xf2", b"\xf3", b"\x67")]
        for p in pl:
            for op in range(256):
                if mi == 0 and op == 0x0f:
                    continue
                opc = mp + bytes([op])
                for k, mr in enumerate(mrs):
                    # thinning must keep every mod value of every (prefix, opcode) row: the class list cycles through mod = 11, 00, 01, 10,
                    # so the choice is made per cycle (k // 4) and shifted per mod (k % 4) - never by the parity of k alone, which
                    # removed all register forms of every second row
                    if thin > 1 and (op * 31 + k // 4 + k % 4 + len(p)) % thin:
                        continue
                    fill = PATTERN if quick else _pick([PATTERN] + BOUNDARY_FILLS, (seed, p, opc, mr), 1)[0]
                    if (mr >> 6) != 3 and (mr & 7) == 4:
                        nsib = 2 if quick else 6
                        for sb in _pick(sibs, (seed, p, opc, mr), nsib):
                            out.add(window(p, opc, bytes([mr, sb]) + fill))
                    else:
                        out.add(window(p, opc, bytes([mr]) + fill))
                    if not quick:
                        for f2 in _pick(BOUNDARY_FILLS, (seed, p, opc, mr, "b"), 2):
                            out.add(window(p, opc, bytes([mr]) + f2))
    return sorted(out)


def sib_grid(opcodes=(b"\x8b", b"\x8d", b"\x89", b"\x0f\xb6", b"\xd9", b"\x0f\x10")):
    """all 256 SIB bytes x mod 0/1/2 for representative rows of each addressing table"""
    out = []
    for opc in opcodes:
        for mod in range(3):
            for reg in (0, 3):
                for sb in range(256):
                    out.append(window(b"", opc, bytes([modrm(mod, reg, 4), sb]) + PATTERN))
    return out


def modrm_grid(opcodes=(b"\x8b", b"\x8a", b"\x0f\xb7", b"\x0f\x6f", b"\x0f\x28", b"\xdd", b"\xff", b"\x8c", b"\x0f\x20")):
    """all 256 ModRM bytes, without and with the address-size prefix"""
    out = []
    for opc in opcodes:
        for pfx in (b"", b"\x67", b"\x66"):
            for mr in range(256):
                out.append(window(pfx, opc, bytes([mr]) + PATTERN))
    return out


def segment_grid(opcodes=(b"\x8b", b"\x88", b"\xff", b"\x0f\xb6", b"\xd9", b"\x0f\x6f")):
    """every segment-override prefix x every memory addressing shape: all ModRM memory bytes of reg fields 0 / 6 at mod 0 / 1 / 2 and, under
    rm = 100, every (base, index) pair at scales 1 and 4 - the default segment of an address depends on *where* ebp / esp stand in it (base vs
    index), so an override that coincides with a default is meaningful for some shapes and superfluous for others (seed C09-r8-2); the 16-bit
    shapes (67) come with every override as well"""
    out = []
    for opc in opcodes:
        for seg in (b"\x26", b"\x2e", b"\x36", b"\x3e", b"\x64", b"\x65"):
            for mod in (0, 1, 2):
                for reg in ((0, 6) if opc in (b"\xff", b"\xd9") else (0,)):
                    for rm in range(8):
                        if rm != 4:
                            out.append(window(seg, opc, bytes([modrm(mod, reg, rm)]) + PATTERN))
                            out.append(window(seg + b"\x67", opc, bytes([modrm(mod, reg, rm)]) + PATTERN))
                            continue
                        out.append(window(seg + b"\x67", opc, bytes([modrm(mod, reg, rm)]) + PATTERN))
                        for base in range(8):
                            for index in range(8):
                                for ss in (0, 2):
                                    out.append(window(seg, opc, bytes([modrm(mod, reg, 4), (ss << 6) | (index << 3) | base]) + PATTERN))
    return out


def long_prefix_cases():
    """instructions of 12..24 bytes: runs of 4..19 prefix bytes (one byte repeated, or two alternating) in front of bodies of 1, 5, 7 and 11
    bytes, in 40-byte windows.  The architectural limit is 15 bytes; what the library does beyond it must at least be the same through
    every entry point (seed C10-r8-2: dis(bytes) looked at 15 bytes only, dis(stream) at all of them)"""
    bodies = [bytes.fromhex("90"), bytes.fromhex("b844332211"), bytes.fromhex("83804433221105"), bytes.fromhex("8184244433221178563412"),
              bytes.fromhex("0fb6848811223344")]
    out = []
    for n in range(4, 20):
        for p in (b"\x2e", b"\x3e", b"\x66", b"\x67", b"\xf0", b"\xf2", b"\xf3", b"\x66\x67", b"\x2e\x66", b"\xf3\x3e"):
            run_ = (p * n)[:n]
            for body in bodies:
                b = run_ + body
                out.append((b + PATTERN * 4)[:40])
    return out


def x87_cases():
    out = []
    for op in range(0xd8, 0xe0):
        for mr in range(256):
            out.append(window(b"", bytes([op]), bytes([mr]) + PATTERN))
    return out


def control_flow_cases():
    """every direct/indirect control transfer form with boundary displacements"""
    disps8 = [0x00, 0x01, 0x7f, 0x80, 0xff, 0x10, 0xf0]
    disps32 = [b"\x00\x00\x00\x00", b"\x01\x00\x00\x00", b"\xff\xff\xff\x7f", b"\x00\x00\x00\x80", b"\xff\xff\xff\xff",
               b"\x00\x10\x00\x00", b"\xf0\xff\xff\xff", b"\xff\x7f\x00\x00", b"\x00\x80\x00\x00", b"\xfe\xff\x00\x00"]
    out = []
    for pfx in (b"", b"\x66", b"\x67", b"\x2e", b"\x3e", b"\x26", b"\x36", b"\x64", b"\x65", b"\x66\x66", b"\x67\x67", b"\x66\x67\x66", b"\x2e\x66", b"\x66\x3e",
                b"\x66\x67", b"\x67\x66", b"\x2e\x66\x67", b"\x67\x3e\x66"):
        for cc in range(16):
            for d in disps8:
                out.append(window(pfx, bytes([0x70 + cc]), bytes([d]) + PATTERN))
            for d in disps32:
                out.append(window(pfx, bytes([0x0f, 0x80 + cc]), d + PATTERN))
        for op in (0xe0, 0xe1, 0xe2, 0xe3, 0xeb):
            for d in disps8:
                out.append(window(pfx, bytes([op]), bytes([d]) + PATTERN))
        for op in (0xe8, 0xe9):
            for d in disps32:
                out.append(window(pfx, bytes([op]), d + PATTERN))
        for op in (0xc3, 0xcb, 0xcf, 0xf4, 0xcc, 0xce, 0xc9, 0x90):
            out.append(window(pfx, bytes([op]), PATTERN))
        for op in (0xc2, 0xca, 0xcd):
            for d in (b"\x00\x00", b"\x04\x00", b"\xff\xff", b"\x80\x00"):
                out.append(window(pfx, bytes([op]), d + PATTERN))
        for op in (0x9a, 0xea):
            out.append(window(pfx, bytes([op]), b"\x78\x56\x34\x12\xcd\xab" + PATTERN))
        for digit in range(8):
            for mr in (modrm(3, digit, 0), modrm(0, digit, 3), modrm(1, digit, 5), modrm(0, digit, 4), modrm(2, digit, 4), modrm(0, digit, 5)):
                out.append(window(pfx, b"\xff", bytes([mr, 0x88]) + PATTERN))
        out.append(window(pfx, b"\x0f\x0b", PATTERN))
        out.append(window(pfx, b"\x0f\x05", PATTERN))
        out.append(window(pfx, b"\x0f\x34", PATTERN))
    return out


def random_cases(n, seed, maxlen=16):
    out = []
    for i in range(n):
        h = hashlib.blake2b(repr(("rnd", seed, i)).encode(), digest_size=16).digest()
        out.append(h[:16])
    return out


def boundary_value_cases():
    """displacement and immediate fields at every width boundary, for representative rows of each addressing / immediate form"""
    out = []
    d8 = [0x00, 0x01, 0x7f, 0x80, 0xff]
    d32 = [b"\x00\x00\x00\x00", b"\x7f\x00\x00\x00", b"\x80\x00\x00\x00", b"\x80\xff\xff\xff", b"\x7f\xff\xff\xff", b"\xff\xff\xff\x7f", b"\x00\x00\x00\x80",
           b"\xff\xff\xff\xff", b"\x00\x01\x00\x00", b"\xff\xff\x00\x00"]
    d16 = [b"\x00\x00", b"\x7f\x00", b"\x80\x00", b"\x80\xff", b"\xff\x7f", b"\x00\x80", b"\xff\xff"]
    rows = [b"\x8b", b"\x89", b"\x03", b"\x8d", b"\x0f\xb6", b"\xd9", b"\x0f\x10", b"\x88", b"\x0f\xaf", b"\xdd"]
    for opc in rows:
        for pfx in (b"", b"\x66"):
            for rm, sib in ((0, b""), (5, b""), (4, b"\x24"), (4, b"\x88"), (4, b"\x6d")):
                for d in d8:
                    out.append(window(pfx, opc, bytes([modrm(1, 0, rm)]) + sib + bytes([d]) + PATTERN))
                for d in d32:
                    out.append(window(pfx, opc, bytes([modrm(2, 3, rm)]) + sib + d + PATTERN))
            for d in d32:
                out.append(window(pfx, opc, bytes([modrm(0, 1, 5)]) + d + PATTERN))
        for d in d8:
            for rm in (0, 4, 5, 7):
                out.append(window(b"\x67", opc, bytes([modrm(1, 2, rm), d]) + PATTERN))
        for d in d16:
            out.append(window(b"\x67", opc, bytes([modrm(2, 2, 7)]) + d + PATTERN))
            out.append(window(b"\x67", opc, bytes([modrm(0, 2, 6)]) + d + PATTERN))
    # immediates
    for pfx in (b"", b"\x66"):
        for digit in range(8):
            for d in d8:
                out.append(window(pfx, b"\x83", bytes([modrm(3, digit, 1), d]) + PATTERN))
                out.append(window(pfx, b"\x80", bytes([modrm(3, digit, 1), d]) + PATTERN))
                out.append(window(pfx, b"\x83", bytes([modrm(1, digit, 5), 0x10, d]) + PATTERN))
            for d in (d32 if pfx == b"" else [x + b"\x11\x22" for x in d16]):
                out.append(window(pfx, b"\x81", bytes([modrm(3, digit, 2)]) + d + PATTERN))
        for d in d8:
            out.append(window(pfx, b"\x6a", bytes([d]) + PATTERN))
            out.append(window(pfx, b"\x6b", bytes([0xc1, d]) + PATTERN))
            out.append(window(pfx, b"\xc6", bytes([0x00, d]) + PATTERN))
            out.append(window(pfx, b"\xb0", bytes([d]) + PATTERN))
            out.append(window(pfx, b"\xa8", bytes([d]) + PATTERN))
            out.append(window(pfx, b"\xc1", bytes([0xe0, d]) + PATTERN))
            out.append(window(pfx, b"\xcd", bytes([d]) + PATTERN))
        for d in (d32 if pfx == b"" else [x + b"\x11\x22" for x in d16]):
            out.append(window(pfx, b"\x68", d + PATTERN))
            out.append(window(pfx, b"\x69", bytes([0xc1]) + d + PATTERN))
            out.append(window(pfx, b"\xc7", bytes([0x00]) + d + PATTERN))
            out.append(window(pfx, b"\xb8", d + PATTERN))
            out.append(window(pfx, b"\x05", d + PATTERN))
            out.append(window(pfx, b"\xa9", d + PATTERN))
    for d in d32:
        for op in (0xa0, 0xa1, 0xa2, 0xa3):
            out.append(window(b"", bytes([op]), d + PATTERN))
    return out
