"""R1/R2 - reference tools: GNU binutils (objdump, as) and LLVM (llvm-objdump) in batch mode.

Decoding: every case sits in its own 32-byte slot padded with NOPs (instruction <= 15 bytes, so any
mis-sized decode of the window's tail is re-synchronised by single-byte NOPs before the next slot);
one objdump run per chunk, the line at address 32*k gives length and text of case k.
Assembling: one line per case, `as --32 -al` listing gives the bytes of each accepted line.
A missing tool raises runner.Inconclusive (exit 2), never a violation.
"""
import os
import re
import shutil
import subprocess
import tempfile
from vlib import runner

SLOT = 32
_LINE = re.compile(r"^\s*([0-9a-f]+):\s+((?:[0-9a-f]{2} )+)\s*\t?(.*)$")


def need(tool):
    p = shutil.which(tool)
    if not p:
        raise runner.Inconclusive("reference tool %s is not installed" % tool)
    return p


def _blob(cases):
    out = bytearray()
    for c in cases:
        c = bytes(c)[:16]
        out += c + b"\x90" * (SLOT - len(c))
    out += b"\x90" * SLOT
    return bytes(out)


def _parse(text, n):
    res = [None] * n
    for line in text.splitlines():
        m = _LINE.match(line)
        if not m:
            continue
        addr = int(m.group(1), 16)
        if addr % SLOT or addr // SLOT >= n:
            continue
        nb = len(m.group(2).split())
        res[addr // SLOT] = (nb, m.group(3).strip())
    return res


def objdump(cases, syntax="intel", scratch=None, extra=()):
    """-> list of (length, text); text '(bad)' when objdump rejects the bytes"""
    need("objdump")
    d = scratch or tempfile.gettempdir()
    fd, path = tempfile.mkstemp(suffix=".bin", dir=d)
    os.write(fd, _blob(cases))
    os.close(fd)
    try:
        opts = ["-M", "intel"] if syntax == "intel" else ["-M", "att"]
        p = subprocess.run(["objdump", "-D", "-b", "binary", "-m", "i386", "-w", "--insn-width=16"] + opts + list(extra) + [path],
                           stdout=subprocess.PIPE, stderr=subprocess.PIPE)
        if p.returncode != 0:
            raise runner.Inconclusive("objdump failed: %s" % p.stderr.decode(errors="replace")[:300])
        return _parse(p.stdout.decode(errors="replace"), len(cases))
    finally:
        os.unlink(path)


def llvm_objdump(cases, scratch=None):
    """-> list of (length, text) in Intel syntax; text '<unknown>' when LLVM rejects"""
    need("llvm-objdump")
    need("objcopy")
    d = scratch or tempfile.gettempdir()
    fd, path = tempfile.mkstemp(suffix=".bin", dir=d)
    os.write(fd, _blob(cases))
    os.close(fd)
    elf = path + ".o"
    try:
        p = subprocess.run(["objcopy", "-I", "binary", "-O", "elf32-i386", "-B", "i386",
                            "--rename-section", ".data=.text,alloc,load,readonly,code,contents", path, elf],
                           stdout=subprocess.PIPE, stderr=subprocess.PIPE)
        if p.returncode != 0:
            raise runner.Inconclusive("objcopy failed: %s" % p.stderr.decode(errors="replace")[:300])
        p = subprocess.run(["llvm-objdump", "-d", "--x86-asm-syntax=intel", "--print-imm-hex", elf], stdout=subprocess.PIPE, stderr=subprocess.PIPE)
        if p.returncode != 0:
            raise runner.Inconclusive("llvm-objdump failed: %s" % p.stderr.decode(errors="replace")[:300])
        return _parse(p.stdout.decode(errors="replace"), len(cases))
    finally:
        for f in (path, elf):
            if os.path.exists(f):
                os.unlink(f)


def gas(lines, syntax="intel", scratch=None):
    """assemble each line separately in one `as --32` run -> list of bytes or None (rejected)"""
    need("as")
    d = scratch or tempfile.gettempdir()
    fd, path = tempfile.mkstemp(suffix=".s", dir=d)
    head = ".intel_syntax noprefix\n" if syntax == "intel" else ".att_syntax\n"
    with os.fdopen(fd, "w") as f:
        f.write(head)
        for l in lines:
            f.write(l.replace("\n", " ") + "\n")
    lst = path + ".lst"
    obj = path + ".o"
    try:
        subprocess.run(["as", "--32", "-al=" + lst, "--listing-lhs-width=4", "--listing-cont-lines=2", "-o", obj, path],
                       stdout=subprocess.PIPE, stderr=subprocess.PIPE)
        res = [None] * len(lines)
        if not os.path.exists(lst):
            return res
        first = re.compile(r"^\s*(\d+)\s+(?:\?{4}|[0-9a-fA-F]{4,})\s+((?:[0-9A-F]+ )+)\s*\t")
        cont = re.compile(r"^\s*(\d+)\s+([0-9A-F]+)\s*$")
        acc = {}
        with open(lst, errors="replace") as f:
            for line in f:
                m = first.match(line) or cont.match(line)
                if not m:
                    continue
                ln = int(m.group(1)) - 2
                if 0 <= ln < len(lines):
                    acc[ln] = acc.get(ln, "") + m.group(2).replace(" ", "")
        for ln, hx in acc.items():
            try:
                res[ln] = bytes.fromhex(hx)
            except ValueError:
                pass
        return res
    finally:
        for f in (path, lst, obj):
            if os.path.exists(f):
                os.unlink(f)
