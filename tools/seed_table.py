#!/usr/bin/env python3
"""Developer tool: markdown table of seeded/*/meta.json (which check caught which seeded change, and how fast)."""
import os, json
HERE = os.path.dirname(os.path.dirname(os.path.abspath(__file__)))
rows = []
for name in sorted(os.listdir(os.path.join(HERE, "seeded"))):
    mp = os.path.join(HERE, "seeded", name, "meta.json")
    if not os.path.exists(mp):
        continue
    m = json.load(open(mp))
    det = []
    for c, d in sorted(m["checks_run_against_it"].items()):
        caught = d["exit"] == 1 and any(l.startswith("VIOLATION") for l in d["violation_lines"])
        det.append("%s: %s (%.0f s)" % (c, "caught" if caught else ("not caught" if d["exit"] == 0 else "exit %d" % d["exit"]), d["wall_s"]))
    aft = []
    for c, d in sorted(m.get("after_corrections", {}).items()):
        aft.append("%s: %s (%.0f s)" % (c, "caught" if d["exit"] == 1 else "not caught", d["wall_s"]))
    if aft:
        det.append("**after the corrections** " + "; ".join(aft))
    rows.append("| %s | %s | %s | %s |" % (name, m["property"], m["needs_to_manifest"].replace("|", "/")[:150], "; ".join(det)))
print("| seeded change | property | needs, to manifest | quick check result |\n|---|---|---|---|")
print("\n".join(rows))

import sys
if "--write" in sys.argv:
    # replace the table in DESIGN.md section 7a (from its header row up to the paragraph "**First round")
    p = os.path.join(HERE, "DESIGN.md")
    s = open(p).read()
    a = s.index("| seeded change | property | needs, to manifest | quick check result |")
    b = s.index("**First round (39 changes")
    tab = "| seeded change | property | needs, to manifest | quick check result |\n|---|---|---|---|\n" + "\n".join(rows) + "\n\n"
    open(p, "w").write(s[:a] + tab + s[b:])
