#!/usr/bin/env python3
"""Developer tool: run the current quick tier of the named checks against a filed seed (seeded/<name>/patch.diff applied to a scratch copy
of /repo's working tree) and record the outcome in its meta.json under "after_corrections".
usage: tools/reconfirm_seed.py <name> <check> [<check> ...]"""
import os, sys, json, shutil, subprocess, time
HERE = os.path.dirname(os.path.dirname(os.path.abspath(__file__)))
name, checks = sys.argv[1], sys.argv[2:]
sd = os.path.join(HERE, "seeded", name)
d = "/tmp/reseed-%s" % name
shutil.rmtree(d, ignore_errors=True)
subprocess.run("rsync -a --exclude .git --exclude __pycache__ /repo/ %s/" % d, shell=True, check=True)
p = subprocess.run("patch -p1 -s < %s/patch.diff" % sd, shell=True, cwd=d)
if p.returncode != 0:
    print(name, "patch does not apply"); shutil.rmtree(d, ignore_errors=True); sys.exit(1)
meta = json.load(open(os.path.join(sd, "meta.json")))
res = meta.setdefault("after_corrections", {})
for c in checks:
    t0 = time.time()
    env = dict(os.environ); env["VERIF_REPO"] = d
    q = subprocess.run("%s/check %s --tier quick" % (HERE, c), shell=True, env=env, stdout=subprocess.PIPE, stderr=subprocess.STDOUT)
    out = q.stdout.decode(errors="replace")
    v = [l for l in out.splitlines() if l.startswith("VIOLATION") or l.strip().startswith("signature=")]
    res[c] = {"exit": q.returncode, "violation_lines": [x[:400] for x in v[:4]], "wall_s": round(time.time() - t0, 1)}
    print(name, c, "caught" if q.returncode == 1 else "NOT caught (exit %d)" % q.returncode, res[c]["wall_s"], flush=True)
json.dump(meta, open(os.path.join(sd, "meta.json"), "w"), indent=1)
shutil.rmtree(d, ignore_errors=True)
