#!/usr/bin/env python3
"""Developer tool: confirm a seeded change produced by a sub-agent and file it under seeded/<name>/.

usage: tools/confirm_seed.py <PROP> <name> <patch.diff> <demo.py> "<what it needs to manifest>" [check ids...]
Steps (all in a scratch copy of /repo's working tree under /tmp, removed afterwards):
  1. demo on the unchanged copy must exit 0
  2. patch applies; the repository's test-suite passes with it
  3. demo on the changed copy must exit non-zero
  4. each named check (default: PROP) is run (quick tier) against the changed copy; records whether it reports a VIOLATION
"""
import os, sys, json, shutil, subprocess, time

HERE = os.path.dirname(os.path.dirname(os.path.abspath(__file__)))


def sh(cmd, env=None, cwd=None, timeout=3600):
    e = dict(os.environ)
    e.update(env or {})
    p = subprocess.run(cmd, shell=True, cwd=cwd, env=e, stdout=subprocess.PIPE, stderr=subprocess.STDOUT, timeout=timeout)
    return p.returncode, p.stdout.decode(errors="replace")


def main():
    prop, name, patch, demo, needs = sys.argv[1:6]
    checks = sys.argv[6:] or [prop]
    d = "/tmp/seedchk-%s" % name
    shutil.rmtree(d, ignore_errors=True)
    sh("rsync -a --exclude .git --exclude __pycache__ /repo/ %s/" % d)
    os.makedirs(d + "/_tmp", exist_ok=True)
    env = {"PYTHONPATH": d, "TMPDIR": d + "/_tmp", "PYTHONHASHSEED": "0"}
    ran = []
    # warm the PLY table cache first: with an empty TMPDIR ply/yacc.py leaves sys.path clobbered (see DESIGN.md, C12)
    sh("/venv/bin/python -c 'import miasmx.arch.ia32_arch'", env, cwd=d)
    rc0, out0 = sh("/venv/bin/python %s" % demo, env, cwd=d)
    ran.append({"cmd": "demo on unchanged tree", "exit": rc0, "tail": out0[-300:]})
    rcp, outp = sh("patch -p1 -s < %s" % patch, cwd=d)
    ran.append({"cmd": "apply patch", "exit": rcp, "tail": outp[-300:]})
    rct, outt = sh("/venv/bin/python -m pytest -q -p no:cacheprovider --timeout=900 tests 2>&1 | tail -3", {"PYTHONPATH": d}, cwd=d)
    ran.append({"cmd": "test-suite with change", "exit": rct, "tail": outt[-300:]})
    rc1, out1 = sh("/venv/bin/python %s" % demo, env, cwd=d)
    ran.append({"cmd": "demo on changed tree", "exit": rc1, "tail": out1[-600:]})
    ok = rc0 == 0 and rcp == 0 and ("278 passed" in outt) and rc1 != 0
    detected = {}
    for c in checks:
        t0 = time.time()
        rc, out = sh("%s/check %s --tier quick" % (HERE, c), {"VERIF_REPO": d})
        v = [l for l in out.splitlines() if l.startswith("VIOLATION") or l.strip().startswith("signature=")]
        detected[c] = {"exit": rc, "violation_lines": v[:6], "wall_s": round(time.time() - t0, 1)}
    shutil.rmtree(d, ignore_errors=True)
    print(json.dumps({"confirmed": ok, "ran": ran, "detected": detected}, indent=1))
    if ok:
        out = os.path.join(HERE, "seeded", name)
        os.makedirs(out, exist_ok=True)
        shutil.copy(patch, os.path.join(out, "patch.diff"))
        shutil.copy(demo, os.path.join(out, "demo.py"))
        json.dump({"property": prop, "needs_to_manifest": needs, "origin": "independent sub-agent given only the property text and a scratch worktree",
                   "confirmed": ran, "checks_run_against_it": detected}, open(os.path.join(out, "meta.json"), "w"), indent=1)
    return 0 if ok else 1


sys.exit(main())
