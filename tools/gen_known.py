#!/usr/bin/env python3
"""Developer tool: turn the TRIAGE output of a check into known_findings.json entries (status open).
usage: tools/gen_known.py <PROP> <triage.txt> [<triage2.txt> ...]   -- entries already listed (same property+sig) are kept.
Each entry is reviewed by hand before committing (see DESIGN.md section 6)."""
import re, sys, json, os
HERE = os.path.dirname(os.path.dirname(os.path.abspath(__file__)))
prop = sys.argv[1]
p = os.path.join(HERE, "known_findings.json")
d = json.load(open(p))
have = set((e["property"], json.dumps(e["sig"])) for e in d["findings"])
n = 0
for fn in sys.argv[2:]:
    txt = open(fn).read()
    for sig, det, case in re.findall(r"TRIAGE sig=(\[.*?\])\n   detail=(.*?)\n   case=(.*?)\n", txt):
        k = (prop, json.dumps(json.loads(sig)))
        if k in have:
            continue
        have.add(k)
        det = re.sub(r" <_binary[^>]*>", "", det)
        d["findings"].append({"property": prop, "status": "open", "sig": json.loads(sig), "what": det[:400], "example": json.loads(case)})
        n += 1
json.dump(d, open(p, "w"), indent=1)
print("added", n)
