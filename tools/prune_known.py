#!/usr/bin/env python3
"""Developer tool: drop `open` entries of known_findings.json whose example no longer violates (listed as resolved in the evidence of
the latest run of that check on the real tree).  Never used at run time."""
import os, sys, json
HERE = os.path.dirname(os.path.dirname(os.path.abspath(__file__)))
k = json.load(open(os.path.join(HERE, "known_findings.json")))
drop = {}
ALL = "--all" in sys.argv     # also drop entries whose example still fails, but under another (listed) signature
for pid in [a for a in sys.argv[1:] if a != "--all"]:
    ev = json.load(open(os.path.join(HERE, "evidence", pid + ".json")))
    drop[pid] = set(json.dumps(r["sig"]) for r in ev["coverage"].get("known_findings_resolved", []) if ALL or r.get("now") is None)
out, n = [], 0
for e in k["findings"]:
    if e.get("status", "open") == "open" and json.dumps(e["sig"]) in drop.get(e["property"], ()):
        n += 1
        continue
    out.append(e)
k["findings"] = out
json.dump(k, open(os.path.join(HERE, "known_findings.json"), "w"), indent=1)
print("dropped", n)
