#!/usr/bin/env python3
"""Developer tool: rewrite the quick column of the 'Tier sizes and costs' table of DESIGN.md from evidence/*.json (quick tier)."""
import os, re, json
HERE = os.path.dirname(os.path.dirname(os.path.abspath(__file__)))
p = os.path.join(HERE, "DESIGN.md")
s = open(p).read()
a = s.index("| check | quick: cases / non-trivial / s | thorough: cases / non-trivial / s |")
b = s.index("All 19 quick commands take about", a)
head, s, tail = s[:a], s[a:b], s[b:]        # only the cost table is rewritten
for i in range(1, 20):
    pid = "C%02d" % i
    e = json.load(open(os.path.join(HERE, "evidence", pid + ".json")))
    if e["tier"] != "quick":
        continue
    c = e["coverage"]
    new = "%d / %d / %d" % (c["evaluations"], c["distinct_nontrivial"], round(e["wall_s"]))
    s = re.sub(r"(\| %s \| )[^|]*( \| )" % pid, lambda m: m.group(1) + new + m.group(2), s, count=1)
open(p, "w").write(head + s + tail)
