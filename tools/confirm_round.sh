#!/bin/sh
# developer helper: confirm the three changes a sub-agent left in /tmp/wt/<ID>-out as seeds <ID>-r${ROUND:-6}-<k>; extra args = further checks to run
ID="$1"; shift
for k in 1 2 3; do
  D=${WT:-/tmp/wt}/$ID-out
  [ -f $D/change$k.diff ] || continue
  T=$(grep -m1 "^## Change $k" $D/README.md | sed 's/^## //')
  python3 /verif/tools/confirm_seed.py $ID $ID-r${ROUND:-6}-$k $D/change$k.diff $D/demo$k.py "$T" $ID "$@" > ${WT:-/tmp/wt}/$ID-confirm$k.json 2>&1
  TITLE="$T" python3 - <<PY
import json, os
try:
    r=json.load(open('${WT:-/tmp/wt}/$ID-confirm$k.json'))
    print('$ID-r${ROUND:-6}-$k', 'confirmed' if r['confirmed'] else 'NOT-CONFIRMED', {c:(v['exit'],v['wall_s']) for c,v in r['detected'].items()}, '|', os.environ.get('TITLE', ''))
    if not r['confirmed']: print(json.dumps(r['ran'])[:1500])
except Exception as e: print('$ID-r${ROUND:-6}-$k', 'ERR', e)
PY
done
