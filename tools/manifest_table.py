NOT_BUILT = {}
CHECKS = {
 "C14": {
  "technique": "exhaustive enumeration (all 2^16 8-bit pairs, boundary grid over all widths) + Hypothesis random search against Python unbounded integers",
  "text": "Every operator of the fixed-width integer types is compared with Python's unbounded arithmetic reduced into the expected type: completely for 8-bit x 8-bit pairs and for the boundary grid over all 11 types and type pairs, by seeded random search elsewhere. Exploration, not proof: wide values are sampled.",
  "note": "Trusted: Python integer arithmetic; the expected-type rule written from the property statement (wider type wins, plain int keeps the fixed type). Shift counts/exponents limited to 0..256, zero divisors excluded.",
 },
}
