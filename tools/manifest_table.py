NOT_BUILT = {}
CHECKS = {
 "C14": {
  "technique": "exhaustive enumeration (all 2^16 8-bit pairs, boundary grid over all widths) + Hypothesis random search against Python unbounded integers",
  "text": "Every operator of the fixed-width integer types is compared with Python's unbounded arithmetic reduced into the expected type: completely for 8-bit x 8-bit pairs and for the boundary grid over all 11 types and type pairs, by seeded random search elsewhere. Exploration, not proof: wide values are sampled.",
  "note": "Trusted: Python integer arithmetic; the expected-type rule written from the property statement (wider type wins, plain int keeps the fixed type). Shift counts/exponents limited to 0..256, zero divisors excluded.",
 },
 "C05": {
  "technique": "Hypothesis-generated well-typed IR trees + one template per rewrite rule + exhaustive 2^16-valuation sweeps of 8-bit rule instances, judged by a reference IR interpreter",
  "text": "expr_simp is run on generated expressions (random trees at widths 1..64, an instance generator for each of ~50 rewrite-rule shapes including near-equal operands, and 8-bit two-variable instances swept over all 65536 valuations); width and value are compared with an independent bit-vector interpreter on 16 valuations per tree, termination as bounded rewriting work. Failures are reduced to a minimal generalised shape that names the rule.",
  "note": "Trusted: vlib/irsem.py (written from the operator meanings; flat memory, segment not part of the address; uninterpreted operators get a congruence-respecting pseudo-random function). Rotates only at widths 8/16/32. Values are sampled except in the 8-bit sweeps.",
 },
 "C15": {
  "technique": "Hypothesis-generated expression scripts with one-field mutations and replacement maps; algebraic laws + independent substitute() + reference interpreter",
  "text": "For generated expressions of all node kinds: independent rebuilds must be equal with equal hashes; any one-field mutation that still compares equal must have equal hash, width and value; copy() must be equal and share no node; visit(identity) must be equal; replace_expr must agree structurally and in value with an independent script-level substitution; canonize() must preserve value and be idempotent.",
  "note": "Trusted: vlib/irsem.py for values; replacement values range over fresh identifiers so simultaneous and bottom-up substitution coincide; the destination of an assignment is never a key.",
 },
 "C16": {
  "technique": "Hypothesis dependency probing (perturb one identifier / memory cell / memory byte, watch the reference interpreter's value) and generated (pattern, wildcards, binding) triples with mutated non-instances judged by an independent matcher",
  "text": "Read sets: for generated expressions and assignments, every identifier, opaque memory cell and memory byte whose perturbation changes the reference value must be covered by get_r()/get_r(mem_read=True)/get_expr_ids, and get_w names the destination. Matching: e is built by substitution from a generated pattern; whenever MatchExpr does not return False the returned bindings must reproduce e, and one-field mutations of e for which an independent matcher finds no binding must be rejected.",
  "note": "Trusted: vlib/irsem.py; the independent matcher in the check. Identifiers occurring only inside a memory address are required only with mem_read=True; segment selectors are not required (flat memory model). Success of MatchExpr on true instances is reported (class histogram) but not demanded, as in the statement.",
 },
 "C13": {
  "technique": "Hypothesis metamorphic testing (re-simplify a fresh copy; permute/re-associate operand multisets) + cross-process differential runs of one corpus under 8 PYTHONHASHSEED values",
  "text": "Idempotence is checked on a fresh rebuild of the simplifier's output (so cached 'simp' flags cannot hide a second rewrite); order-insensitivity on two random arrangements (permutation and re-association, near-equal operands included) of the same operand multiset for + * ^ & |; seed independence by running a corpus of expressions, decoded/rendered/lifted instructions and emulated state dumps in 8 child processes with different hash seeds and comparing item by item.",
  "note": "Exceptions of the simplifier are C05's business and skipped here. Seed independence is checked for 8 seed values on a sampled corpus.",
 },
 "C06": {
  "technique": "Hypothesis-generated (expression, machine state, valuation) triples; differential against a reference interpreter applied to the substituted expression (byte-overlay model for bound memory cells)",
  "text": "eval_abs.eval_expr is run on generated expressions (random trees, 3/4-ary associative operators, lifter-only operators) in states that bind identifiers and same-address memory cells to constants, symbolic expressions over free symbols, or nothing. For 6 valuations of the free symbols the value of the result must equal the reference value of the original expression after substitution; widths must agree; bound identifiers are poisoned so an unsubstituted one is visible; with all-constant inputs and core operators the result must be an integer constant.",
  "note": "Trusted: vlib/irsem.py. Fresh objects/machine per case and the shared default eval_cache cleared (hidden state is C12's subject). Reads that partially overlap a bound cell, mutually overlapping cells and valuations under which an unbound read aliases a bound cell are excluded and counted (C07's subject / outside the machine's stated model). Lifter-only named operators (umul32_hi, div32...) may stay symbolic on constants.",
 },
 "C01": {
  "technique": "structured enumeration of the opcode x ModRM x SIB x prefix space, differential against two independent reference decoders (GNU objdump, LLVM as arbiter) through a notation-level normal form",
  "text": "About 250k (quick) / 7M (thorough) byte strings built from prefix set x opcode map (1-byte, 0F, 0F38, 0F3A, x87) x ModRM/SIB class x fill, plus complete ModRM and SIB grids and all control-transfer forms, are decoded by miasmX and by objdump; length and every operand field of miasmX's Intel rendering are compared with the reference after notation normalisation; a disagreement counts only when LLVM's decoder agrees with objdump. instr.b / instr.l consistency and re-decoding of exactly the consumed bytes are checked on every accepted string.",
  "note": "Trusted: binutils 2.40 objdump and LLVM 14 where they agree; vlib/nf.py (synonym table, normalisation). Out of domain and counted: strings a decoder rejects, strings with a prefix that has no effect, LOCK on non-lockable forms, F2/F3 forms that later ISA extensions reassigned. Displacement/immediate values are sampled at boundary fills, not exhausted. ~105 existing decoder imprecisions are listed as open known findings keyed by (field, prefixes, opcode, mnemonic).",
 },
 "C17": {
  "technique": "enumeration of all control-transfer encodings x boundary displacements x stream offsets (incl. near 2^32), classification oracle derived from the reference decoder's mnemonic, target computed from the raw displacement bytes",
  "text": "Every jcc/jmp/call/loop/jecxz/ret/iret/int/hlt/ud2 form (rel8/rel16/rel32 at boundary displacements, indirect and far forms, with operand/address-size and segment prefixes) and a stratified sample of all other opcode rows are decoded through a duck-typed stream at 10 offsets (0 .. 2^32-1). getnextflow, breakflow/splitflow/dstflow and getdstflow are compared with the architectural class of objdump's mnemonic and with offset+length+sext(disp) truncated to the operand size.",
  "note": "Trusted: objdump's mnemonic and length; the class table of the property statement. Strings with superfluous prefixes (objdump prints data16 before rel8 branches) or with a C01 length disagreement (rel16 forms under 0x66, a listed C01 finding) are not judged.",
 },
 "C11": {
  "technique": "enumeration of the decodable opcode x ModRM x prefix space, each instruction lifted and judged by an independent IR type checker (validity predicate); flag sources refuted by evaluation on sampled valuations",
  "text": "Every decodable string of the structured byte space (incl. 0x66/0x67 forms, full ModRM grids, x87 and control transfers) whose mnemonic has lifted semantics is lifted; lifting must not raise and the assignment list must satisfy the well-formedness rules of the statement (assignment shape, operand-width agreement, slice bounds, Compose tiling, source/destination width with the 0/1-flag exception, no double write). All problems of an instruction are reported, each keyed by (rule, mnemonic, operand size).",
  "note": "Trusted: vlib/irtype.py. A wide source of a 1-bit flag is only refuted by sampling (24 valuations); sources containing uninterpreted operators are undecided and counted. ~240 existing lifter defects are listed as open known findings.",
 },
 "C10": {
  "technique": "enumeration of the byte space with truncation / junk-tail / stream-offset metamorphic relations, and Hypothesis fuzzing of the assembler with token sequences, structured lines and one-token mutations; crash oracle with the documented exception set",
  "text": "Decoder: every window of the structured byte space plus random strings is decoded; exceptions, failing renderings (4 formats), accepted truncations, dependence on bytes after the instruction and wrong stream bookkeeping (offset 1..3) are failures. Assembler: asm and asm_att are called on generated token sequences (<= 8 tokens), on structured lines with boundary immediates and on one-token mutations of rendered instructions; anything but a list of byte strings, the (prefix, []) pair, or ValueError is a failure. Failures are bucketed by (entry point, exception type, innermost miasmx/ply function[, mnemonic]).",
  "note": "Self-consistency only: a decoder that is consistently wrong about a length is C01's subject (reference decoder). Hangs: 20 s watchdog nominates, 3*10^6 executed lines under settrace confirms; C-level stalls are not detected by that second step. ~300 existing crash sites (mostly the AT&T renderer's missing mnemonics) are listed as open known findings.",
 },
 "C02": {
  "technique": "Hypothesis-generated structured instruction specs rendered in Intel and AT&T syntax; every assembler candidate decoded by reference disassemblers (objdump, LLVM arbiter) and compared with the spec through the normal form; range rule for immediates",
  "text": "Specs (mnemonic x operand shape from a ~900-entry family table x registers x memory operands over base/index/scale/displacement/segment x immediates at every width boundary) are printed by the harness's own Intel and AT&T printers, assembled with asm/asm_att, and ALL returned candidates are decoded by objdump: each must be one instruction of exactly len(candidate) bytes whose mnemonic, operands, sizes, displacement and immediate (as an integer under the operand width, out-of-range values must produce no candidate) are those of the spec.",
  "note": "Trusted: objdump/LLVM agreement, vlib/nf.py, the family table and printers in vlib/asmgen.py (cr/dr register names are not generated: the parser treats them as symbols). Relative-branch numbers follow miasmX's displacement convention. Lines the assembler rejects are outside the domain. 43 existing defects are listed (silent immediate truncation, bogus extra MMX/SSE candidates, dropped ds: override on ebp/esp bases, out dx,eax).",
 },
 "C03": {
  "technique": "round-trip (fixpoint) testing: (a) every candidate of Hypothesis-generated lines through dis/str/asm; (b) canonical byte strings of the enumerated byte space, canonicity decided by GNU as + objdump",
  "text": "(a) For every accepted generated line (both syntaxes) and every candidate b: dis(b) accepts, consumes len(b) bytes, its Intel rendering re-assembles and b is among the new candidates. (b) Every decodable string of the structured byte space (plus boundary displacement/immediate grids) that GNU as reproduces from objdump's disassembly is rendered by miasmX and re-assembled; the original bytes must be among the candidates.",
  "note": "Trusted: GNU as/objdump for canonicity. Relative branches are skipped in (b) (objdump prints absolute targets). Failures cluster on addressing features (segment override, absolute address, 16-bit addressing, cr/dr registers) and are keyed by feature or by (prefix, opcode, mnemonic); ~130 existing ones are listed.",
 },
}
