#!/usr/bin/env python3
"""Regenerates MANIFEST.json from the table below (kept in one place so it is always valid)."""
import json, os
HERE = os.path.dirname(os.path.dirname(os.path.abspath(__file__)))
CHECKS = {}
exec(open(os.path.join(HERE, "tools", "manifest_table.py")).read())
props = [json.loads(l)["id"] for l in open(os.path.join(HERE, "properties.jsonl"))]
checks, na = [], []
for p in props:
    if p in CHECKS:
        c = CHECKS[p]
        checks.append({
            "property_id": p,
            "quick_cmd": "./check %s --tier quick" % p,
            "thorough_cmd": "./check %s --tier thorough" % p,
            "evidence_file": "evidence/%s.json" % p,
            "replay_cmd_template": "./check %s --replay {path}" % p,
            "engine": c.get("engine", "hypothesis+enumeration"),
            "level_claimed": {"category": "exploration", "text": c["text"], "design_ref": c.get("ref", "DESIGN.md section 4 " + p)},
            "level_note": c["note"],
            "technique": c["technique"],
        })
    else:
        na.append({"property_id": p, "reason": NOT_BUILT.get(p, "check not built yet in this session; see DESIGN.md section 9 for the build order")})
m = {
    "version": 1,
    "setup_cmd": "./setup.sh",
    "hooks": {"guard": "LRGH_MIASMX_VERIF", "enable": "no hooks: every property is observed through the public API; checks import miasmx from /repo's working tree",
              "baseline_off_cmd": "cd /repo && /venv/bin/python -m pytest -ra -q -p no:cacheprovider --timeout=900 --continue-on-collection-errors",
              "source_commits": [], "add_only": True},
    "engines": [{"name": "hypothesis+enumeration", "path": "vlib/runner.py", "serves_properties": sorted(CHECKS),
                 "kind_free_text": "Hypothesis (seeded by VERIF_SEED) for unbounded dimensions, itertools enumeration sharded over 16 processes for finite ones; explicit oracles (Python integers, reference IR interpreter, binutils/LLVM, the CPU)"},
                {"name": "atheris", "path": "vlib/fuzz_c10.py", "serves_properties": ["C10"],
                 "kind_free_text": "coverage-guided fuzzing (atheris 3.1 on libFuzzer, miasmx imported under instrument_imports) of decoder and assembler targets with the C10 oracle inside the target; campaigns are child processes of checks/c10_total.py, pinned by -seed / -runs, known signatures excluded in-target"}],
    "checks": checks,
    "not_applicable": na,
    "notes": "Known genuine defects are listed in known_findings.json (open entries print KNOWN-FINDING lines and suppress exactly their root-cause signature; fixed entries suppress nothing).",
}
json.dump(m, open(os.path.join(HERE, "MANIFEST.json"), "w"), indent=1)
print("checks:", [c["property_id"] for c in checks], "not_applicable:", len(na))
