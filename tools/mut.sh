#!/bin/sh
# usage: tools/mut.sh <name> <check-id> <sed-expr-or-patchfile> [file]   (developer helper: sensitivity test in a scratch copy)
# copies /repo's working tree to /tmp/mx-<name>, applies the change, runs the check against it, removes it.
NAME="$1"; ID="$2"; CHG="$3"; FILE="$4"
D=/tmp/mx-$NAME
rm -rf "$D"; mkdir -p "$D"
rsync -a --exclude .git --exclude __pycache__ /repo/ "$D"/
if [ -f "$CHG" ]; then (cd "$D" && patch -p1 -s < "$CHG") || { echo "patch failed"; rm -rf "$D"; exit 3; }
else sed -i "$CHG" "$D/$FILE"; (cd "$D" && diff -u "/repo/$FILE" "$FILE" | head -20); fi
if [ $# -ge 4 ]; then shift 4; else shift $#; fi
VERIF_REPO="$D" /verif/check "$ID" "$@" 2>&1 | tail -${MUT_TAIL:-6}
rm -rf "$D"
