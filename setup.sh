#!/bin/sh
# Offline setup: make sure hypothesis is importable by /venv/bin/python, build native helpers.
HERE="$(cd "$(dirname "$0")" && pwd)"
cd "$HERE" || exit 1
PY=/venv/bin/python
if ! "$PY" -c "import hypothesis" 2>/dev/null; then
    /venv/bin/pip install --no-index --find-links /opt/veriftools/wheels hypothesis >/dev/null 2>&1 || \
    "$PY" -m pip install --no-index --find-links /opt/veriftools/wheels --target "$HERE/.deps" hypothesis
fi
"$PY" -c "import sys; sys.path.insert(0, '$HERE/.deps'); import hypothesis; print('hypothesis', hypothesis.__version__)" || exit 1
# atheris (coverage-guided tier of C10) is optional: without it the campaigns are skipped and the evidence says so
if ! PYTHONPATH="$HERE/.deps" "$PY" -c "import atheris" 2>/dev/null; then
    "$PY" -m pip install --no-index --find-links /opt/veriftools/wheels --target "$HERE/.deps" atheris >/dev/null 2>&1 || \
    echo "atheris not installed (the C10 fuzz campaigns will be skipped)"
fi
mkdir -p "$HERE/.build" "$HERE/evidence" "$HERE/replays"
if [ -f "$HERE/vlib/cpu32/build.sh" ]; then sh "$HERE/vlib/cpu32/build.sh" || echo "cpu32 build failed (C04/C08 will be INCONCLUSIVE)"; fi
exit 0
